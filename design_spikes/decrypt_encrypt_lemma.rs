use vstd::prelude::*;
verus! {
pub uninterp spec fn spec_md5(s: Seq<u8>) -> Seq<u8>;
pub broadcast axiom fn md5_len(s: Seq<u8>) ensures #[trigger] spec_md5(s).len() == 16;
pub open spec fn xor_block(a: Seq<u8>, k: Seq<u8>) -> Seq<u8> { Seq::new(16, |j:int| a[j] ^ k[j]) }
pub open spec fn cblock(p: Seq<u8>, t: Seq<u8>, secret: Seq<u8>, rv: Seq<u8>, i: int) -> Seq<u8>
  decreases i
{
    if i <= 0 { xor_block(p.subrange(0, 16), spec_md5(t + secret + rv)) }
    else { xor_block(p.subrange(16*i, 16*i+16), spec_md5(secret + cblock(p, t, secret, rv, i-1))) }
}
pub open spec fn encrypt(p: Seq<u8>, t: Seq<u8>, secret: Seq<u8>, rv: Seq<u8>) -> Seq<u8> {
    Seq::new(p.len(), |k:int| cblock(p, t, secret, rv, k/16)[k%16])
}
pub open spec fn dkey(c: Seq<u8>, t: Seq<u8>, secret: Seq<u8>, rv: Seq<u8>, i: int) -> Seq<u8> {
    if i <= 0 { spec_md5(t + secret + rv) } else { spec_md5(secret + c.subrange(16*(i-1), 16*i)) }
}
pub open spec fn decrypt(c: Seq<u8>, t: Seq<u8>, secret: Seq<u8>, rv: Seq<u8>) -> Seq<u8> {
    Seq::new(c.len(), |k:int| c[k] ^ dkey(c, t, secret, rv, k/16)[k%16])
}
proof fn xor_inv(a: u8, k: u8) ensures (a ^ k) ^ k == a { assert((a ^ k) ^ k == a) by (bit_vector); }

pub proof fn lemma_decrypt_encrypt(p: Seq<u8>, t: Seq<u8>, secret: Seq<u8>, rv: Seq<u8>)
  requires p.len() % 16 == 0, p.len() >= 16
  ensures decrypt(encrypt(p, t, secret, rv), t, secret, rv) == p
{
    broadcast use md5_len;
    let c = encrypt(p, t, secret, rv);
    assert forall |k:int| 0 <= k < p.len() implies decrypt(c, t, secret, rv)[k] == p[k] by {
        let i = k / 16; let m = k % 16;
        if i > 0 {
            assert(c.subrange(16*(i-1), 16*i) =~= cblock(p, t, secret, rv, i-1)) by {
                assert forall |mm:int| 0 <= mm < 16 implies c.subrange(16*(i-1), 16*i)[mm] == #[trigger] cblock(p,t,secret,rv,i-1)[mm] by {
                    let kk = 16*(i-1) + mm;
                    assert(kk / 16 == i - 1 && kk % 16 == mm);
                }
            }
            assert(cblock(p,t,secret,rv,i)[m] == p.subrange(16*i,16*i+16)[m] ^ spec_md5(secret + cblock(p,t,secret,rv,i-1))[m]);
        } else {
            assert(cblock(p,t,secret,rv,0)[m] == p.subrange(0,16)[m] ^ spec_md5(t+secret+rv)[m]);
        }
        xor_inv(p[k], dkey(c,t,secret,rv,i)[m]);
    }
    assert(decrypt(c, t, secret, rv) =~= p);
}
}
fn main(){}
