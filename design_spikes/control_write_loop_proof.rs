use vstd::prelude::*;
verus! {
pub uninterp spec fn strict() -> bool;
#[verifier::external_body]
pub fn vf_runtime_assert(c: bool) requires strict() ==> c, ensures c { assert!(c) }
pub open spec fn enc16(x: u16) -> Seq<u8> { seq![(x / 256) as u8, (x % 256) as u8] }
pub open spec fn upd(s: Seq<u8>, off: int, b: Seq<u8>) -> Seq<u8> {
    Seq::new(s.len(), |i:int| if off <= i < off + b.len() { b[i-off] } else { s[i] })
}
pub trait Writer {
    spec fn out(&self) -> Seq<u8>;
    fn len(&self) -> (r: usize) ensures r == self.out().len();
    fn write_bytes(&mut self, bytes: &[u8]) ensures final(self).out() == old(self).out() + bytes@;
    fn write_bytes_at(&mut self, bytes: &[u8], offset: usize) 
       requires strict() ==> offset + bytes@.len() <= old(self).out().len()
       ensures offset + bytes@.len() <= old(self).out().len(), final(self).out() == upd(old(self).out(), offset as int, bytes@);
    fn write_u16_be(&mut self, value: u16) ensures final(self).out() == old(self).out() + enc16(value);
}
pub trait VfBe16 { fn vf_to_be_bytes(self) -> (r: [u8;2]); }
impl VfBe16 for u16 { #[verifier::external_body] fn vf_to_be_bytes(self) -> (r: [u8;2]) ensures r@ == enc16(self) { self.to_be_bytes() } }

pub struct AVP { pub x: u16 }
impl AVP {
    pub uninterp spec fn enc(&self) -> Seq<u8>;
    pub open spec fn fits(&self) -> bool { self.enc().len() <= 1023 }
    #[verifier::external_body]
    pub fn write<W: Writer>(&self, writer: &mut W)
      requires strict() ==> self.fits()
      ensures final(writer).out() == old(writer).out() + self.enc(), self.fits(), self.enc().len() >= 6
    { unimplemented!() }
}
pub open spec fn enc_all(s: Seq<AVP>) -> Seq<u8> decreases s.len() {
    if s.len() == 0 { seq![] } else { enc_all(s.drop_last()) + s.last().enc() }
}
pub struct Flags { pub data: u16 }
impl Flags {
    #[verifier::external_body]
    pub fn write<W: Writer>(&self, writer: &mut W) ensures final(writer).out() == old(writer).out() + enc16(self.data) { unimplemented!() }
    #[verifier::external_body]
    pub fn new_control(v: u8) -> (r: Self) ensures r.data == 0x1320 { unimplemented!() }
}

pub struct ControlMessage {
    pub length: u16,
    pub tunnel_id: u16,
    pub session_id: u16,
    pub ns: u16,
    pub nr: u16,
    pub avps: Vec<AVP>,
}
pub open spec fn spec_enc_control(m: ControlMessage) -> Seq<u8> {
    let body = enc16(m.tunnel_id) + enc16(m.session_id) + enc16(m.ns) + enc16(m.nr) + enc_all(m.avps@);
    enc16(0x1320) + enc16((4 + body.len()) as u16) + body
}
pub open spec fn control_fits(m: ControlMessage) -> bool {
    (forall |i:int| 0 <= i < m.avps@.len() ==> (#[trigger] m.avps@[i]).fits()) && 12 + enc_all(m.avps@).len() <= 65535
}

impl ControlMessage {
    pub(crate) fn write<W: Writer>(&self, protocol_version: u8, writer: &mut W) 
      requires strict() ==> control_fits(*self),
      ensures final(writer).out() == old(writer).out() + spec_enc_control(*self),
              12 + enc_all(self.avps@).len() <= 65535,
    {
        let start_position = writer.len();
        let flags = Flags::new_control(protocol_version);
        flags.write(writer);

        // Save length field position
        let length_position = writer.len();

        // Dummy octets to be overwritten
        writer.write_bytes(&[0, 0]);

        // Write rest of header
        writer.write_u16_be(self.tunnel_id);
        writer.write_u16_be(self.session_id);
        writer.write_u16_be(self.ns);
        writer.write_u16_be(self.nr);
        let ghost base = writer.out();

        // Write payload
        for avp in it: self.avps.iter() 
          invariant
            writer.out() == base + enc_all(self.avps@.take(it.index@)),
            strict() ==> control_fits(*self),
        {
            proof { 
                let k = it.index@;
                assert(self.avps@.take(k + 1).drop_last() =~= self.avps@.take(k));
                assert(self.avps@.take(k + 1).last() == self.avps@[k]);
            }
            avp.write(writer);
        }
        proof { assert(self.avps@.take(self.avps@.len() as int) =~= self.avps@); }

        // Get total length
        let end_position = writer.len();
        let length = end_position - start_position;

        // Overwrite dummy octets
        vf_runtime_assert(length <= u16::MAX as usize);
        writer.write_bytes_at(&(length as u16).vf_to_be_bytes(), length_position);
        proof {
            assert(writer.out() =~= old(writer).out() + spec_enc_control(*self));
        }
    }
}
}
fn main(){}
