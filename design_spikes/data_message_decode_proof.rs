use vstd::prelude::*;
pub mod pre {
use vstd::prelude::*;
use core::borrow::Borrow;
verus! {
pub uninterp spec fn borrow_view<T: ?Sized>(t: &T) -> Seq<u8>;
pub open spec fn be16(s: Seq<u8>, i: int) -> u16 { (s[i] as u16 * 256 + s[i+1] as u16) as u16 }
pub open spec fn enc16(x: u16) -> Seq<u8> { seq![(x / 256) as u8, (x % 256) as u8] }
pub broadcast proof fn lemma_skip_skip(s: Seq<u8>, a: int, b: int)
  requires 0 <= a, 0 <= b, a + b <= s.len()
  ensures #[trigger] s.skip(a).skip(b) == s.skip(a + b)
{ assert(s.skip(a).skip(b) =~= s.skip(a+b)); }
pub broadcast proof fn lemma_be16_skip(s: Seq<u8>, a: int, i: int)
  requires 0 <= a, 0 <= i, a + i + 2 <= s.len()
  ensures #[trigger] be16(s.skip(a), i) == be16(s, a + i)
{ }
pub broadcast proof fn lemma_skip_take(s: Seq<u8>, a: int, n: int)
  requires 0 <= a, 0 <= n, a + n <= s.len()
  ensures #[trigger] s.skip(a).take(n) == s.subrange(a, a + n)
{ assert(s.skip(a).take(n) =~= s.subrange(a, a+n)); }
pub broadcast group seq_lemmas { lemma_skip_skip, lemma_be16_skip, lemma_skip_take }
}
}
pub mod codec {
use vstd::prelude::*;
use core::borrow::Borrow;
use crate::pre::*;
verus! {
broadcast use crate::pre::seq_lemmas;

pub enum DecodeError { InvalidOffset(u16), IncompleteDataMessageHeader, IncompleteDataMessagePayload, EmptyDataMessagePayload, MessageReadError }
pub type DecodeResult<T> = Result<T, DecodeError>;

pub trait Reader<T> {
    spec fn rem(&self) -> Seq<u8>;
    fn is_empty(&self) -> (r: bool) ensures r == (self.rem().len() == 0);
    fn len(&self) -> (r: usize) ensures r == self.rem().len();
    fn bytes(&mut self, length: usize) -> (r: Option<T>)
        ensures 
          length <= old(self).rem().len() ==> r.is_some() && borrow_view(&r.unwrap()) == old(self).rem().take(length as int) && final(self).rem() == old(self).rem().skip(length as int),
          length == old(self).rem().len() ==> r.is_some() && borrow_view(&r.unwrap()) == old(self).rem(),
          length > old(self).rem().len() ==> r.is_none();
    unsafe fn read_u16_be_unchecked(&mut self) -> (r: u16)
        requires old(self).rem().len() >= 2,
        ensures r == be16(old(self).rem(), 0), final(self).rem() == old(self).rem().skip(2);
    fn skip_bytes(&mut self, length: usize)
        requires length <= old(self).rem().len(),
        ensures final(self).rem() == old(self).rem().skip(length as int);
}

pub struct Flags { pub data: u16 }
pub open spec fn bit(w: u16, i: int) -> bool { (w as int / vstd::arithmetic::power2::pow2(i as nat) as int) % 2 == 1 }
impl Flags {
    pub open spec fn l(&self) -> bool { bit(self.data, 9) }
    pub open spec fn s(&self) -> bool { bit(self.data, 12) }
    pub open spec fn o(&self) -> bool { bit(self.data, 14) }
    pub open spec fn p(&self) -> bool { bit(self.data, 15) }
    #[verifier::external_body] pub fn has_length(&self) -> (r: bool) ensures r == self.l() { unimplemented!() }
    #[verifier::external_body] pub fn has_ns_nr(&self) -> (r: bool) ensures r == self.s() { unimplemented!() }
    #[verifier::external_body] pub fn has_offset(&self) -> (r: bool) ensures r == self.o() { unimplemented!() }
    #[verifier::external_body] pub fn is_prioritized(&self) -> (r: bool) ensures r == self.p() { unimplemented!() }
}

pub struct DataMessage<T> {
    pub is_prioritized: bool,
    pub length: Option<u16>,
    pub tunnel_id: u16,
    pub session_id: u16,
    pub ns_nr: Option<(u16, u16)>,
    pub offset: Option<u16>,
    pub data: T,
}
pub struct DataV { pub is_prioritized: bool, pub length: Option<u16>, pub tunnel_id: u16, pub session_id: u16, pub ns_nr: Option<(u16,u16)>, pub offset: Option<u16>, pub data: Seq<u8> }
impl<T> DataMessage<T> { pub open spec fn v(&self) -> DataV { DataV { is_prioritized: self.is_prioritized, length: self.length, tunnel_id: self.tunnel_id, session_id: self.session_id, ns_nr: self.ns_nr, offset: self.offset, data: borrow_view(&self.data) } } }

// ---- RFC 2661 3.1 data message, octets after the flag word; (value, octets consumed) ----
pub open spec fn spec_data(f: Flags, b0: Seq<u8>) -> Result<(DataV, Seq<u8>), ()> {
    // fields in wire order; each step consumes a prefix
    let need: int = 4 + (if f.l() { 2int } else { 0 }) + (if f.s() { 4int } else { 0 }) + (if f.o() { 2int } else { 0 });
    if b0.len() < need { Err(()) } else {
    let length = if f.l() { Some(be16(b0, 0)) } else { None };
    let b1 = if f.l() { b0.skip(2) } else { b0 };
    let tunnel = be16(b1, 0); let session = be16(b1, 2);
    let b2 = b1.skip(4);
    let ns_nr = if f.s() { Some((be16(b2, 0), be16(b2, 2))) } else { None };
    let b3 = if f.s() { b2.skip(4) } else { b2 };
    let pad: int = if f.o() { be16(b3, 0) as int } else { 0 };
    let b4 = if f.o() { b3.skip(2) } else { b3 };
    if b4.len() < pad { Err(()) } else {
    let b5 = b4.skip(pad);
    // Length counts every octet from the first flag octet: 2 + need + pad + |payload|
    let n: int = match length { Some(l) => l as int - (2 + need + pad), None => b5.len() as int };
    if n <= 0 || n > b5.len() { Err(()) } else {
        Ok((DataV { is_prioritized: f.p(), length, tunnel_id: tunnel, session_id: session, ns_nr, offset: None, data: b5.take(n) }, b5.skip(n)))
    }}}
}

impl<T> DataMessage<T>
where
    T: Borrow<[u8]>,
{
    #[inline]
    pub(crate) fn try_read<R: Reader<T>>(flags: Flags, reader: &mut R) -> (res: DecodeResult<Self>) 
      ensures
        res is Ok <==> spec_data(flags, old(reader).rem()) is Ok,
        res is Ok ==> res->Ok_0.v() == spec_data(flags, old(reader).rem())->Ok_0.0
                   && final(reader).rem() == spec_data(flags, old(reader).rem())->Ok_0.1,
    {
        let mut minimal_length_minus_flags = 4;
        if flags.has_length() {
            minimal_length_minus_flags += 2;
        }
        if flags.has_ns_nr() {
            minimal_length_minus_flags += 4;
        }
        if flags.has_offset() {
            minimal_length_minus_flags += 2;
        }
        if reader.len() < minimal_length_minus_flags {
            return Err(DecodeError::IncompleteDataMessageHeader);
        }

        let maybe_length = if flags.has_length() {
            let length = unsafe { reader.read_u16_be_unchecked() };
            Some(length)
        } else {
            None
        };

        let tunnel_id = unsafe { reader.read_u16_be_unchecked() };
        let session_id = unsafe { reader.read_u16_be_unchecked() };

        let maybe_ns_nr = if flags.has_ns_nr() {
            let ns = unsafe { reader.read_u16_be_unchecked() };
            let nr = unsafe { reader.read_u16_be_unchecked() };
            Some((ns, nr))
        } else {
            None
        };
        let mut offset_size: usize = 0;
        if flags.has_offset() {
            let size = unsafe { reader.read_u16_be_unchecked() };
            if reader.len() < size as usize {
                return Err(DecodeError::InvalidOffset(size));
            }
            reader.skip_bytes(size as usize);
            offset_size = size as usize;
        }

        let payload_length;
        if let Some(length) = maybe_length {
            let header_length = minimal_length_minus_flags + 2 + offset_size;
            if (length as usize) < header_length || length as usize - header_length > reader.len() {
                return Err(DecodeError::IncompleteDataMessagePayload);
            }
            payload_length = length as usize - header_length;
        } else {
            payload_length = reader.len();
        }

        if payload_length == 0 {
            return Err(DecodeError::EmptyDataMessagePayload);
        }

        let data = reader
            .bytes(payload_length)
            .ok_or(DecodeError::MessageReadError)?;

        Ok(DataMessage {
            is_prioritized: flags.is_prioritized(),
            length: maybe_length,
            tunnel_id,
            session_id,
            ns_nr: maybe_ns_nr,
            offset: None,
            data,
        })
    }
}
}
}
fn main(){}
