use vstd::prelude::*;
use core::borrow::Borrow;
verus! {

pub uninterp spec fn borrow_view<T: ?Sized>(t: &T) -> Seq<u8>;
pub assume_specification<T: Clone> [<[T] as std::borrow::ToOwned>::to_owned] (s: &[T]) -> (r: std::vec::Vec<T>)
  ensures r@ == s@;
pub trait VfBorrow { fn vf_borrow(&self) -> (r: &[u8]) ensures r@ == borrow_view(self); }
impl<T: Borrow<[u8]>> VfBorrow for T { #[verifier::external_body] fn vf_borrow(&self) -> (r: &[u8]) { self.borrow() } }

pub enum DecodeError {
    IncompleteAVP(u16),
    InvalidAVPLength(u16),
    UnsupportedVendorId(u16),
    UnknownAvp(u16),
    AVPReadError(u16),
}
pub type DecodeResult<T> = Result<T, DecodeError>;

pub open spec fn be16(s: Seq<u8>, i: int) -> u16 { (s[i] as u16 * 256 + s[i+1] as u16) as u16 }

pub trait Reader<T> {
    spec fn rem(&self) -> Seq<u8>;
    fn is_empty(&self) -> (r: bool) ensures r == (self.rem().len() == 0);
    fn len(&self) -> (r: usize) ensures r == self.rem().len();
    fn subreader(&mut self, length: usize) -> (r: Self) where Self: Sized
        requires length <= old(self).rem().len(),
        ensures r.rem() == old(self).rem().take(length as int), final(self).rem() == old(self).rem().skip(length as int);
    fn bytes(&mut self, length: usize) -> (r: Option<T>)
        ensures 
          length <= old(self).rem().len() ==> r.is_some() && borrow_view(&r.unwrap()) == old(self).rem().take(length as int) && final(self).rem() == old(self).rem().skip(length as int),
          length > old(self).rem().len() ==> r.is_none();
    unsafe fn read_u8_unchecked(&mut self) -> (r: u8)
        requires old(self).rem().len() >= 1,
        ensures r == old(self).rem()[0], final(self).rem() == old(self).rem().skip(1);
    unsafe fn read_u16_be_unchecked(&mut self) -> (r: u16)
        requires old(self).rem().len() >= 2,
        ensures r == be16(old(self).rem(), 0), final(self).rem() == old(self).rem().skip(2);
    fn skip_bytes(&mut self, length: usize)
        requires length <= old(self).rem().len(),
        ensures final(self).rem() == old(self).rem().skip(length as int);
}

pub struct Flags { pub data: u8 }
impl Flags {
    #[verifier::external_body]
    pub fn from(input: u8) -> (r: Self) ensures r.data == input % 64 { Self { data: input & 0x3f } }
    #[verifier::external_body]
    pub fn is_hidden(&self) -> (r: bool) ensures r == ((self.data / 2) % 2 == 1) { unimplemented!() }
}

pub struct Header {
    pub flags: Flags,
    pub payload_length: u16,
    pub vendor_id: u16,
    pub attribute_type: u16,
}
pub open spec fn hdr_len(s: Seq<u8>) -> int { (s[0] as int / 64) * 256 + s[1] as int }

impl Header {
    pub const LENGTH: u16 = 6;

    #[verifier::external_body]
    pub fn try_read<T, R: Reader<T>>(reader: &mut R) -> (res: Option<DecodeResult<Self>>)
      ensures old(reader).rem().len() < 6 ==> res is None && final(reader).rem() == old(reader).rem(),
              old(reader).rem().len() >= 6 ==> res is Some && final(reader).rem() == old(reader).rem().skip(6)
                 && (hdr_len(old(reader).rem()) < 6 ==> res->Some_0 == Err::<Header,DecodeError>(DecodeError::InvalidAVPLength(hdr_len(old(reader).rem()) as u16)))
                 && (hdr_len(old(reader).rem()) >= 6 ==> res->Some_0 is Ok && ({ let h = res->Some_0->Ok_0; let s = old(reader).rem();
                        h.flags.data == s[0] % 64 && h.payload_length == hdr_len(s) - 6 && h.vendor_id == be16(s, 2) && h.attribute_type == be16(s, 4) })),
    { unimplemented!() }
}

pub struct Hidden {
    pub attribute_type: u16,
    pub value: Vec<u8>,
}
pub enum AVP {
    Other(u16),
    Hidden(Hidden),
}
pub uninterp spec fn spec_decode_avp(t: u16, p: Seq<u8>) -> DecodeResult<AVP>;

#[verifier::external_body]
fn decode_avp<T: Borrow<[u8]>, R: Reader<T>>(
    attribute_type: u16,
    reader: &mut R,
) -> (r: DecodeResult<AVP>) ensures r == spec_decode_avp(attribute_type, old(reader).rem())
{ unimplemented!() }

// ---- abstract view of results (Vec viewed as Seq) ----
pub enum RV { Ok(AVP), Err(DecodeError), HiddenV(u16, Seq<u8>) }
pub open spec fn rview(r: DecodeResult<AVP>) -> RV {
    match r { Ok(AVP::Hidden(h)) => RV::HiddenV(h.attribute_type, h.value@), Ok(a) => RV::Ok(a), Err(e) => RV::Err(e) }
}

// ---- specification of the AVP list (RFC 2661 4.1) ----
pub open spec fn spec_avp_list(s: Seq<u8>) -> Seq<RV>
  decreases s.len()
{
    if s.len() < 6 { seq![] }
    else {
        let len = hdr_len(s);
        if len < 6 { seq![RV::Err(DecodeError::InvalidAVPLength(len as u16))] }
        else if len - 6 > s.len() - 6 { seq![RV::Err(DecodeError::InvalidAVPLength((len - 6) as u16))] }
        else {
            let payload = s.subrange(6, len);
            let rest = s.skip(len);
            let this = if be16(s, 2) != 0 { RV::Err(DecodeError::UnsupportedVendorId(be16(s,2))) }
                       else if (s[0] as int / 2) % 2 == 1 { RV::HiddenV(be16(s,4), payload) }
                       else { rview(spec_decode_avp(be16(s,4), payload)) };
            seq![this] + spec_avp_list(rest)
        }
    }
}
pub open spec fn rviews(v: Seq<DecodeResult<AVP>>) -> Seq<RV> { v.map_values(|r| rview(r)) }
pub proof fn lemma_push(v: Seq<DecodeResult<AVP>>, x: DecodeResult<AVP>) ensures rviews(v.push(x)) == rviews(v).push(rview(x)) { assert(rviews(v.push(x)) =~= rviews(v).push(rview(x))); }

impl AVP {
    #[inline]
    pub fn try_read_greedy<T: Borrow<[u8]>, R: Reader<T>>(
        reader: &mut R,
    ) -> (result: Vec<DecodeResult<Self>>) 
      ensures rviews(result@) == spec_avp_list(old(reader).rem())
    {
        let mut result = Vec::new();
        let ghost s0 = reader.rem();
        let ghost mut cur = reader.rem();
        while let Some(header) = Header::try_read(reader) 
          invariant_except_break
             cur == reader.rem(),
             rviews(result@) + spec_avp_list(reader.rem()) == spec_avp_list(s0),
          ensures rviews(result@) == spec_avp_list(s0),
          decreases reader.rem().len()
        {
            let ghost s = cur;
            let ghost acc = result@;
            assert(rviews(acc) + spec_avp_list(s) == spec_avp_list(s0));
            let header = match header { Ok(h) => h, Err(e) => { result.push(Err(e)); 
                proof { lemma_push(acc, Err(e)); assert(spec_avp_list(s) =~= seq![rview(Err(e))]); }
                break; } };
            if header.payload_length as usize > reader.len() {
                result.push(Err(DecodeError::InvalidAVPLength(header.payload_length)));
                proof { lemma_push(acc, Err(DecodeError::InvalidAVPLength(header.payload_length))); }
                break;
            }
            proof { assert(reader.rem() =~= s.skip(6)); assert(s.subrange(6, hdr_len(s)) =~= s.skip(6).take(header.payload_length as int)); assert(s.skip(hdr_len(s)) =~= s.skip(6).skip(header.payload_length as int)); }
            if header.vendor_id != 0 {
                result.push(Err(DecodeError::UnsupportedVendorId(header.vendor_id)));
                reader.skip_bytes(header.payload_length as usize);
                proof { lemma_push(acc, Err(DecodeError::UnsupportedVendorId(header.vendor_id))); 
                        assert(rviews(result@) + spec_avp_list(reader.rem()) =~= rviews(acc) + spec_avp_list(s)); cur = reader.rem(); }
                continue;
            }

            let avp = if header.flags.is_hidden() {
                // Hidden AVP
                let hidden_data = reader
                    .bytes(header.payload_length as usize)
                    .map(|x: T| -> (r: Vec<u8>) ensures r@ == borrow_view(&x) { x.vf_borrow().to_owned() })
                    .unwrap_or_default();
                Ok(Self::Hidden(Hidden {
                    attribute_type: header.attribute_type,
                    value: hidden_data,
                }))
            } else {
                // Regular AVP
                let mut subreader = reader.subreader(header.payload_length as usize);
                decode_avp(header.attribute_type, &mut subreader)
            };
            result.push(avp);
            proof { lemma_push(acc, avp); 
                    assert(rviews(result@) + spec_avp_list(reader.rem()) =~= rviews(acc) + spec_avp_list(s)); cur = reader.rem(); }
        }

        result
    }
}

}
fn main(){}
