use vstd::prelude::*;
pub mod pre {
use vstd::prelude::*;
use core::borrow::Borrow;
verus! {
// ---------------- prelude ----------------
pub uninterp spec fn borrow_view<T: ?Sized>(t: &T) -> Seq<u8>;
pub uninterp spec fn is_utf8(b: Seq<u8>) -> bool;
pub uninterp spec fn chars_bytes(s: Seq<char>) -> Seq<u8>;
pub broadcast axiom fn chars_bytes_utf8(s: Seq<char>) ensures is_utf8(#[trigger] chars_bytes(s));
pub assume_specification<T: Clone> [<[T] as std::borrow::ToOwned>::to_owned] (s: &[T]) -> (r: std::vec::Vec<T>) ensures r@ == s@;
#[verifier::external_type_specification] #[verifier::external_body] pub struct ExUtf8Error(std::str::Utf8Error);
pub assume_specification [std::str::from_utf8] (b: &[u8]) -> (r: std::result::Result<&str, std::str::Utf8Error>)
  ensures r is Ok <==> is_utf8(b@), r is Ok ==> chars_bytes(r->Ok_0@) == b@;
pub assume_specification [std::string::String::as_bytes] (s: &String) -> (r: &[u8]) ensures r@ == chars_bytes(s@);
pub assume_specification [std::string::String::len] (s: &String) -> (r: usize) ensures r == chars_bytes(s@).len(), r <= isize::MAX;
pub trait VfBorrow { fn vf_borrow(&self) -> (r: &[u8]) ensures r@ == borrow_view(self); }
impl<T: Borrow<[u8]>> VfBorrow for T { #[verifier::external_body] fn vf_borrow(&self) -> (r: &[u8]) { self.borrow() } }

pub open spec fn be16(s: Seq<u8>, i: int) -> u16 { (s[i] as u16 * 256 + s[i+1] as u16) as u16 }
pub open spec fn be32(s: Seq<u8>, i: int) -> u32 { (((s[i] as u32 * 256 + s[i+1] as u32) * 256 + s[i+2] as u32) * 256 + s[i+3] as u32) as u32 }
pub open spec fn enc16(x: u16) -> Seq<u8> { seq![(x / 256) as u8, (x % 256) as u8] }
pub open spec fn enc32(x: u32) -> Seq<u8> { seq![(x / 16777216) as u8, ((x / 65536) % 256) as u8, ((x / 256) % 256) as u8, (x % 256) as u8] }


pub broadcast proof fn lemma_skip_skip(s: Seq<u8>, a: int, b: int)
  requires 0 <= a, 0 <= b, a + b <= s.len()
  ensures #[trigger] s.skip(a).skip(b) == s.skip(a + b)
{ assert(s.skip(a).skip(b) =~= s.skip(a+b)); }
pub broadcast proof fn lemma_be16_skip(s: Seq<u8>, a: int, i: int)
  requires 0 <= a, 0 <= i, a + i + 2 <= s.len()
  ensures #[trigger] be16(s.skip(a), i) == be16(s, a + i)
{ }
pub broadcast proof fn lemma_skip_all(s: Seq<u8>)
  ensures #[trigger] s.skip(s.len() as int) == Seq::<u8>::empty()
{ assert(s.skip(s.len() as int) =~= Seq::<u8>::empty()); }
pub broadcast proof fn lemma_be16_enc16(x: u16, t: Seq<u8>)
  ensures be16(#[trigger] (enc16(x) + t), 0) == x, (enc16(x) + t).skip(2) == t, (enc16(x) + t).len() == 2 + t.len()
{ assert((enc16(x) + t).skip(2) =~= t); }
pub broadcast group seq_lemmas { lemma_skip_skip, lemma_be16_skip, lemma_skip_all, lemma_be16_enc16, chars_bytes_utf8 }


}
}
pub mod codec {
use vstd::prelude::*;
use core::borrow::Borrow;
use crate::pre::*;
verus! {
broadcast use crate::pre::seq_lemmas;
pub enum DecodeError { IncompleteAVP(u16), InvalidUtf8(u16), InvalidResultCodeErrorType(u16), AVPReadError(u16) }
pub type DecodeResult<T> = Result<T, DecodeError>;

pub trait Reader<T> {
    spec fn rem(&self) -> Seq<u8>;
    fn is_empty(&self) -> (r: bool) ensures r == (self.rem().len() == 0);
    fn len(&self) -> (r: usize) ensures r == self.rem().len();
    fn bytes(&mut self, length: usize) -> (r: Option<T>)
        ensures 
          length <= old(self).rem().len() ==> r.is_some() && borrow_view(&r.unwrap()) == old(self).rem().take(length as int) && final(self).rem() == old(self).rem().skip(length as int),
          length == old(self).rem().len() ==> r.is_some() && borrow_view(&r.unwrap()) == old(self).rem(),
          length > old(self).rem().len() ==> r.is_none();
    unsafe fn read_u8_unchecked(&mut self) -> (r: u8)
        requires old(self).rem().len() >= 1,
        ensures r == old(self).rem()[0], final(self).rem() == old(self).rem().skip(1);
    unsafe fn read_u16_be_unchecked(&mut self) -> (r: u16)
        requires old(self).rem().len() >= 2,
        ensures r == be16(old(self).rem(), 0), final(self).rem() == old(self).rem().skip(2);
    unsafe fn read_u32_be_unchecked(&mut self) -> (r: u32)
        requires old(self).rem().len() >= 4,
        ensures r == be32(old(self).rem(), 0), final(self).rem() == old(self).rem().skip(4);
    fn skip_bytes(&mut self, length: usize)
        requires length <= old(self).rem().len(),
        ensures final(self).rem() == old(self).rem().skip(length as int);
}
pub trait Writer {
    spec fn out(&self) -> Seq<u8>;
    fn write_bytes(&mut self, bytes: &[u8]) ensures final(self).out() == old(self).out() + bytes@;
    fn write_u8(&mut self, value: u8) ensures final(self).out() == old(self).out().push(value);
    fn write_u16_be(&mut self, value: u16) ensures final(self).out() == old(self).out() + enc16(value);
    fn write_u32_be(&mut self, value: u32) ensures final(self).out() == old(self).out() + enc32(value);
}
pub trait QueryableAVP { spec fn wire(&self) -> Seq<u8>; fn get_length(&self) -> (r: usize) ensures r == self.wire().len() - 2; }
pub trait WritableAVP: QueryableAVP {
    fn write<W: Writer>(&self, writer: &mut W) ensures final(writer).out() == old(writer).out() + self.wire();
}

// ---------------- ErrorType (num_enum stand-in) ----------------
#[derive(Clone, Copy, Debug, Eq, PartialEq)]
pub enum ErrorType { Ok, NoControlConnectionExists, WrongLength }
pub open spec fn spec_error_type(x: u16) -> Option<ErrorType> {
    if x == 0 { Some(ErrorType::Ok) } else if x == 1 { Some(ErrorType::NoControlConnectionExists) } else if x == 2 { Some(ErrorType::WrongLength) } else { None }
}
pub open spec fn spec_error_code(e: ErrorType) -> u16 { match e { ErrorType::Ok => 0, ErrorType::NoControlConnectionExists => 1, ErrorType::WrongLength => 2 } }
pub struct VfPrimErr {}
impl TryFrom<u16> for ErrorType {
    type Error = VfPrimErr;
    #[verifier::external_body]
    fn try_from(x: u16) -> (r: Result<Self, VfPrimErr>)
      ensures r is Ok <==> spec_error_type(x) is Some, r is Ok ==> Some(r->Ok_0) == spec_error_type(x)
    { unimplemented!() }
}
impl From<ErrorType> for u16 {
    #[verifier::external_body]
    fn from(e: ErrorType) -> (r: u16) ensures r == spec_error_code(e) { unimplemented!() }
}

// ---------------- CodeValue ----------------
#[derive(Clone, Copy, Debug, Eq, PartialEq)]
pub struct CodeValue { value: u16 }
impl CodeValue { pub closed spec fn raw(&self) -> u16 { self.value } }
impl From<CodeValue> for u16 {
    #[inline]
    fn from(value: CodeValue) -> (r: Self) ensures r == value.raw() {
        value.value
    }
}
impl vstd::std_specs::convert::FromSpecImpl<CodeValue> for u16 {
    open spec fn obeys_from_spec() -> bool { true }
    open spec fn from_spec(v: CodeValue) -> u16 { v.raw() }
}
impl vstd::std_specs::convert::FromSpecImpl<u16> for CodeValue {
    open spec fn obeys_from_spec() -> bool { false }
    uninterp spec fn from_spec(v: u16) -> CodeValue;
}
impl From<u16> for CodeValue {
    #[inline]
    fn from(value: u16) -> (r: Self) ensures r.raw() == value {
        Self { value }
    }
}

// ---------------- ResultCode ----------------
#[derive(Clone, Debug, Eq, PartialEq)]
pub struct Error {
    pub error_type: ErrorType,
    pub error_message: Option<String>,
}
#[derive(Clone, Debug, Eq, PartialEq)]
pub struct ResultCode {
    pub code: CodeValue,
    pub error: Option<Error>,
}
// ghost view
pub struct ErrorV { pub error_type: ErrorType, pub msg: Option<Seq<u8>> }
pub struct ResultCodeV { pub code: u16, pub error: Option<ErrorV> }
impl Error { pub open spec fn v(&self) -> ErrorV { ErrorV { error_type: self.error_type, msg: match self.error_message { Some(s) => Some(chars_bytes(s@)), None => None } } } }
impl ResultCode { pub open spec fn v(&self) -> ResultCodeV { ResultCodeV { code: self.code.raw(), error: match self.error { Some(e) => Some(e.v()), None => None } } } }

// ---- independent spec (RFC 2661 4.4.2): code(2) [error(2) [message(utf8+)]] ----
pub open spec fn spec_rc_decode(p: Seq<u8>) -> Result<ResultCodeV, ()> {
    if p.len() < 2 { Err(()) }
    else if p.len() < 4 { Ok(ResultCodeV { code: be16(p,0), error: None }) }
    else {
        match spec_error_type(be16(p,2)) {
            None => Err(()),
            Some(et) => if p.len() == 4 { Ok(ResultCodeV { code: be16(p,0), error: Some(ErrorV { error_type: et, msg: None }) }) }
                        else if is_utf8(p.skip(4)) { Ok(ResultCodeV { code: be16(p,0), error: Some(ErrorV { error_type: et, msg: Some(p.skip(4)) }) }) }
                        else { Err(()) }
        }
    }
}
pub open spec fn spec_rc_encode(v: ResultCodeV) -> Seq<u8> {
    enc16(v.code) + (match v.error { None => seq![], Some(e) => enc16(spec_error_code(e.error_type)) + (match e.msg { None => seq![], Some(m) => m }) })
}
pub open spec fn rc_encodable(v: ResultCodeV) -> bool {
    match v.error { None => true, Some(e) => match e.msg { None => true, Some(m) => m.len() > 0 && is_utf8(m) } }
}

impl Error {
    #[inline]
    pub(crate) unsafe fn try_read<T: Borrow<[u8]>, R: Reader<T>>(
        reader: &mut R,
    ) -> (res: DecodeResult<Self>) 
      requires old(reader).rem().len() >= 2,
      ensures ({ let p = old(reader).rem();
         &&& (res is Ok <==> spec_error_type(be16(p,0)) is Some && (p.len() == 2 || is_utf8(p.skip(2))))
         &&& (res is Ok ==> res->Ok_0.v() == ErrorV { error_type: spec_error_type(be16(p,0))->Some_0, msg: if p.len() == 2 { None } else { Some(p.skip(2)) } })
         &&& (spec_error_type(be16(p,0)) is None ==> res == Err::<Error, DecodeError>(DecodeError::InvalidResultCodeErrorType(be16(p,0))))
      })
    {
        let error_raw = reader.read_u16_be_unchecked();
        let error_type = error_raw
            .try_into()
            .map_err(|_vf| -> (r: DecodeError) ensures r == DecodeError::InvalidResultCodeErrorType(error_raw) { DecodeError::InvalidResultCodeErrorType(error_raw) })?;

        let error_message = if !reader.is_empty() {
            let data = reader
                .bytes(reader.len())
                .ok_or(DecodeError::AVPReadError(ResultCode::ATTRIBUTE_TYPE))?;
            Some(
                std::str::from_utf8(data.vf_borrow())
                    .map_err(|_vf| DecodeError::InvalidUtf8(ResultCode::ATTRIBUTE_TYPE))?
                    .to_owned(),
            )
        } else {
            None
        };

        Ok(Self {
            error_type,
            error_message,
        })
    }
}

impl ResultCode {
    const ATTRIBUTE_TYPE: u16 = 1;
    const FIXED_LENGTH: usize = 2;
    const ERROR_LENGTH: usize = 2;

    #[inline]
    pub fn try_read<T: Borrow<[u8]>, R: Reader<T>>(reader: &mut R) -> (res: DecodeResult<Self>) 
      ensures 
        // [C05 equiv]
        (res is Ok <==> spec_rc_decode(old(reader).rem()) is Ok),
        (res is Ok ==> res->Ok_0.v() == spec_rc_decode(old(reader).rem())->Ok_0),
        // [C03 on_image]
        forall |v: ResultCodeV| rc_encodable(v) && old(reader).rem() == #[trigger] spec_rc_encode(v) ==> res is Ok && res->Ok_0.v() == v,
        // [C20 err_id]
        old(reader).rem().len() < 2 ==> res == Err::<ResultCode, DecodeError>(DecodeError::IncompleteAVP(1)),
    {
        if reader.len() < Self::FIXED_LENGTH {
            return Err(DecodeError::IncompleteAVP(Self::ATTRIBUTE_TYPE));
        }

        let code_raw = unsafe { reader.read_u16_be_unchecked() };
        let code = CodeValue::from(code_raw);

        let error = if reader.len() >= Self::ERROR_LENGTH {
            Some(unsafe { Error::try_read(reader)? })
        } else {
            None
        };

        Ok(Self { code, error })
    }
}

impl QueryableAVP for ResultCode {
    open spec fn wire(&self) -> Seq<u8> { enc16(1) + spec_rc_encode(self.v()) }
    #[inline]
    fn get_length(&self) -> usize {
        let mut length = Self::FIXED_LENGTH;

        if let Some(error) = &self.error {
            length += Self::ERROR_LENGTH;

            if let Some(message) = &error.error_message {
                length += message.len()
            }
        }

        length
    }
}

impl WritableAVP for ResultCode {
    #[inline]
    fn write<W: Writer>(&self, writer: &mut W) {
        writer.write_u16_be(Self::ATTRIBUTE_TYPE);
        writer.write_u16_be(self.code.into());
        if let Some(error) = &self.error {
            writer.write_u16_be(error.error_type.into());

            if let Some(message) = &error.error_message {
                writer.write_bytes(message.as_bytes());
            }
        }
    }
}


}
}
fn main(){}
