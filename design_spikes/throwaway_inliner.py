#!/usr/bin/env python3
# throwaway spike: inline the module tree of /repo/src into one file, apply rewrite rules, wrap in verus!{}
import re, sys, os
SRC='/repo/src'
def read(p): return open(p).read()
def mod_file(dirpath, name):
    a=os.path.join(dirpath, name+'.rs'); b=os.path.join(dirpath, name, 'mod.rs')
    return a if os.path.exists(a) else b
def rewrite(text):
    text=re.sub(r'^\s*//[/!].*$', '', text, flags=re.M)            # doc comments
    text=re.sub(r'#\[cfg\(test\)\]\s*mod tests;\s*', '', text)
    text=re.sub(r'#!\[cfg_attr[^\]]*\]\s*', '', text)
    text=text.replace('|_|','|_vf|')
    text=re.sub(r'#\[enum_dispatch(\([^)]*\))?\]\s*', '', text)
    text=re.sub(r'use enum_dispatch::enum_dispatch;\s*', '', text)
    text=re.sub(r'use num_enum::\{[^}]*\};\s*', '', text)
    text=re.sub(r'use thiserror::Error;\s*', '', text)
    text=re.sub(r'use phf::phf_map;\s*', '', text)
    text=text.replace('IntoPrimitive, TryFromPrimitive, ','')
    text=re.sub(r'#\[derive\(Error, ', '#[derive(', text)
    text=re.sub(r'^\s*#\[error\(.*\)\]\s*$', '', text, flags=re.M)
    text=re.sub(r'#\[repr\(u16\)\]\s*', '', text)
    text=text.replace('.borrow()','.vf_borrow()')
    text=re.sub(r'assert!\(\s*', 'vf_runtime_assert(', text)
    text=re.sub(r'static MESSAGE_CODE_TO_TYPE.*?\n\};\n', '', text, flags=re.S)
    text=text.replace('''    #[inline]
    pub fn try_read<T>(reader: &mut impl Reader<T>) -> DecodeResult<Self> {
        if reader.len() < Self::LENGTH {
            return Err(DecodeError::IncompleteAVP(Self::ATTRIBUTE_TYPE));
        }
        let id = unsafe { reader.read_u16_be_unchecked() };

        match MESSAGE_CODE_TO_TYPE.get(&id) {''','''    #[verifier::external_body]
    pub fn try_read<T>(reader: &mut impl Reader<T>) -> DecodeResult<Self> {
        if reader.len() < Self::LENGTH {
            return Err(DecodeError::IncompleteAVP(Self::ATTRIBUTE_TYPE));
        }
        let id = unsafe { reader.read_u16_be_unchecked() };

        match None::<&MessageType> {''')
    text=text.replace('.to_be_bytes()','.vf_to_be_bytes()')
    text=re.sub(r'\bu(16|32|64)::from_be_bytes\(', r'vf_u\1_from_be_bytes(', text)
    text=re.sub(r'(\w+)\.into_iter\(\)\.filter_map\((\|x\| x\.(?:err|ok)\(\))\)\.collect\(\)', r'vf_filter_map_collect(\1, \2)', text)
    text=re.sub(r'(\w+)\.iter\(\)\.any\(', r'vf_iter_any(&\1, ', text)
    text=text.replace('println!("{x:?}");','')
    for fn in ['fn write_bytes_at', 'pub fn reserved_bits_ok']:
        text=text.replace('    #[inline]\n    '+fn, '    #[verifier::external_body]\n    '+fn)
    if 'pub struct Accm' in text:
        text=text.replace('    #[inline]\n    pub fn try_read', '    #[verifier::external_body]\n    pub fn try_read')
    # assert!(c, "msg") -> single arg
    text=re.sub(r'vf_runtime_assert\(\s*([^;]*?),\s*"[^"]*"\s*\);', r'vf_runtime_assert(\1);', text, flags=re.S)
    # D2: enum_dispatch
    m=re.search(r'pub enum AVP \{(.*?)\n\}', text, flags=re.S)
    if m:
        variants=re.findall(r'^\s*([A-Za-z0-9]+)\(types::', m.group(1), flags=re.M)
        arms_w=''.join(f'            AVP::{v}(i) => WritableAVP::write(i, writer),\n' for v in variants)
        arms_q=''.join(f'            AVP::{v}(i) => QueryableAVP::get_length(i),\n' for v in variants)
        text += '\nimpl WritableAVP for AVP {\n    fn write(&self, writer: &mut impl Writer) {\n        match self {\n'+arms_w+'        }\n    }\n}\nimpl QueryableAVP for AVP {\n    fn get_length(&self) -> usize {\n        match self {\n'+arms_q+'        }\n    }\n}\n'
    # D3: num_enum stand-ins
    for en in ['StopCcnCode','CdnCode','ErrorType','ProxyAuthenType']:
        if re.search(r'pub enum '+en+r' \{', text):
            text += f'''
pub struct VfPrimErr{en} {{}}
impl TryFrom<u16> for {en} {{
    type Error = VfPrimErr{en};
    #[verifier::external_body]
    fn try_from(x: u16) -> (r: Result<Self, VfPrimErr{en}>) {{ unimplemented!() }}
}}
impl From<{en}> for u16 {{
    #[verifier::external_body]
    fn from(e: {en}) -> (r: u16) {{ unimplemented!() }}
}}
'''
    return text
def inline(dirpath, path, depth):
    text=rewrite(read(path))
    # split out `mod x;` decls
    out=[]; pos=0
    body_parts=[]
    for m in re.finditer(r'^(\s*)(pub(?:\([a-z]+\))?\s+)?mod\s+([a-z_0-9]+);\s*$', text, flags=re.M):
        body_parts.append(('code', text[pos:m.start()]))
        body_parts.append(('mod', (m.group(2) or '', m.group(3))))
        pos=m.end()
    body_parts.append(('code', text[pos:]))
    res=''
    me=os.path.splitext(os.path.basename(path))[0]
    subdir = dirpath if me in ('lib','mod') else os.path.join(dirpath, me)
    for kind, v in body_parts:
        if kind=='code':
            if v.strip(): res += 'verus! {\n'+v+'\n}\n'
        else:
            vis,name=v
            f=mod_file(subdir, name)
            res += f'{vis}mod {name} {{\nuse vstd::prelude::*;\nuse crate::vf_prelude::*;\nuse crate::md5;\n' + inline(subdir, f, depth+1) + '}\n'
    return res
print('#![allow(unused_imports, dead_code, unused_variables)]\nuse vstd::prelude::*;\n')
print(open(os.path.join(os.path.dirname(os.path.abspath(__file__)),'throwaway_prelude.rs')).read())
print(inline(SRC, os.path.join(SRC,'lib.rs'), 0))
print('fn main(){}')
