use vstd::prelude::*;
pub mod pre {
use vstd::prelude::*;
verus! {
// ---- assumed std semantics: v.into_iter().filter_map(f).collect::<Vec<_>>() and v.iter().any(f) ----
pub open spec fn filter_map_spec<T, B>(s: Seq<T>, g: spec_fn(T) -> Option<B>) -> Seq<B>
  decreases s.len()
{
    if s.len() == 0 { Seq::empty() }
    else { let r = filter_map_spec(s.drop_last(), g); match g(s.last()) { Some(b) => r.push(b), None => r } }
}
#[verifier::external_body]
pub fn vf_filter_map_collect<T, B, F: FnMut(T) -> Option<B>>(v: Vec<T>, f: F) -> (r: Vec<B>)
  requires forall |x: T| f.requires((x,)),
  ensures forall |g: spec_fn(T) -> Option<B>| (forall |x: T, o: Option<B>| f.ensures((x,), o) ==> o == g(x)) ==> r@ == #[trigger] filter_map_spec(v@, g),
{ v.into_iter().filter_map(f).collect() }

#[verifier::external_body]
pub fn vf_iter_any<T, F: FnMut(&T) -> bool>(v: &Vec<T>, f: F) -> (r: bool)
  requires forall |x: &T| f.requires((x,)),
  ensures forall |g: spec_fn(T) -> bool| (forall |x: &T, o: bool| f.ensures((x,), o) ==> o == g(*x)) ==> r == #[trigger] any_spec(v@, g),
{ v.iter().any(f) }
pub open spec fn any_spec<T>(s: Seq<T>, g: spec_fn(T) -> bool) -> bool { exists |i: int| 0 <= i < s.len() && g(s[i]) }
}
}
pub mod codec {
use vstd::prelude::*;
use crate::pre::*;
verus! {
pub enum DecodeError { A, B(u16), ControlMessageTypeNotFirst }
pub enum AVP { MessageType(u16), Other(u16) }
pub struct ControlMessage { pub length: u16, pub avps: Vec<AVP> }

pub open spec fn g_err(x: Result<AVP, DecodeError>) -> Option<DecodeError> { match x { Err(e) => Some(e), Ok(_) => None } }
pub open spec fn g_ok(x: Result<AVP, DecodeError>) -> Option<AVP> { match x { Ok(a) => Some(a), Err(_) => None } }
pub open spec fn g_is_err(x: Result<AVP, DecodeError>) -> bool { x is Err }

pub open spec fn spec_tail(list: Seq<Result<AVP, DecodeError>>) -> Result<Seq<AVP>, Seq<DecodeError>> {
    if list.len() > 0 && !(list[0] is Ok && list[0]->Ok_0 is MessageType) { Err(seq![DecodeError::ControlMessageTypeNotFirst]) }
    else if any_spec(list, |x| g_is_err(x)) { Err(filter_map_spec(list, |x| g_err(x))) }
    else { Ok(filter_map_spec(list, |x| g_ok(x))) }
}

pub fn tail(avp_and_err: Vec<Result<AVP, DecodeError>>, length: u16) -> (res: Result<ControlMessage, Vec<DecodeError>>)
  ensures 
    res is Ok <==> spec_tail(avp_and_err@) is Ok,
    res is Ok ==> res->Ok_0.avps@ == spec_tail(avp_and_err@)->Ok_0,
    res is Err ==> res->Err_0@ == spec_tail(avp_and_err@)->Err_0,
{
        if let Some(first) = avp_and_err.first() {
            match first {
                Ok(AVP::MessageType(_)) => (),
                _ => return Err(vec![DecodeError::ControlMessageTypeNotFirst]),
            }
        }

        if vf_iter_any(&avp_and_err, |x: &Result<AVP, DecodeError>| -> (r: bool) ensures r == g_is_err(*x) {
            x.is_err()
        }) {
            return Err(vf_filter_map_collect(avp_and_err, |x: Result<AVP, DecodeError>| -> (r: Option<DecodeError>) ensures r == g_err(x) { x.err() }));
        }

        let avps = vf_filter_map_collect(avp_and_err, |x: Result<AVP, DecodeError>| -> (r: Option<AVP>) ensures r == g_ok(x) { x.ok() });

        Ok(ControlMessage {
            length,
            avps,
        })
}
}
}
fn main(){}
