pub mod vf_prelude {
use vstd::prelude::*;
use core::borrow::Borrow;
verus! {
pub uninterp spec fn strict() -> bool;
pub uninterp spec fn is_utf8(b: Seq<u8>) -> bool;
pub uninterp spec fn chars_bytes(s: Seq<char>) -> Seq<u8>;
pub assume_specification<T: Clone> [<[T] as std::borrow::ToOwned>::to_owned] (s: &[T]) -> (r: std::vec::Vec<T>) ensures r@ == s@;
#[verifier::external_type_specification] #[verifier::external_body] pub struct ExUtf8Error(std::str::Utf8Error);
#[verifier::external_type_specification] #[verifier::external_body] pub struct ExTryFromSliceError(std::array::TryFromSliceError);
pub assume_specification [std::str::from_utf8] (b: &[u8]) -> (r: std::result::Result<&str, std::str::Utf8Error>)
  ensures r is Ok <==> is_utf8(b@), r is Ok ==> chars_bytes(r->Ok_0@) == b@;
pub assume_specification [std::string::String::as_bytes] (s: &String) -> (r: &[u8]) ensures r@ == chars_bytes(s@);
pub assume_specification [std::string::String::len] (s: &String) -> (r: usize) ensures r == chars_bytes(s@).len(), r <= isize::MAX;
pub assume_specification<T, I: core::slice::SliceIndex<[T]>> [ <[T]>::get_unchecked::<I> ] (s: &[T], i: I) -> (r: &I::Output)
  requires vstd::slice::SliceIndexSpec::in_bounds(&i, s), ensures vstd::slice::SliceIndexSpec::index_postcondition(&i, s, r);
pub assume_specification<T, E> [std::result::Result::<T, E>::unwrap_unchecked] (r: std::result::Result<T, E>) -> (t: T) requires r is Ok, ensures t == r->Ok_0;
pub trait VfBe2 { fn vf_to_be_bytes(self) -> [u8;2]; }
impl VfBe2 for u16 { #[verifier::external_body] fn vf_to_be_bytes(self) -> [u8;2] { self.to_be_bytes() } }
pub trait VfBe4 { fn vf_to_be_bytes(self) -> [u8;4]; }
impl VfBe4 for u32 { #[verifier::external_body] fn vf_to_be_bytes(self) -> [u8;4] { self.to_be_bytes() } }
pub trait VfBe8 { fn vf_to_be_bytes(self) -> [u8;8]; }
impl VfBe8 for u64 { #[verifier::external_body] fn vf_to_be_bytes(self) -> [u8;8] { self.to_be_bytes() } }
#[verifier::external_body] pub fn vf_u16_from_be_bytes(b: [u8;2]) -> u16 { u16::from_be_bytes(b) }
#[verifier::external_body] pub fn vf_u32_from_be_bytes(b: [u8;4]) -> u32 { u32::from_be_bytes(b) }
#[verifier::external_body] pub fn vf_u64_from_be_bytes(b: [u8;8]) -> u64 { u64::from_be_bytes(b) }
#[verifier::external_body]
pub fn vf_filter_map_collect<T, B, F: FnMut(T) -> Option<B>>(v: Vec<T>, f: F) -> (r: Vec<B>) requires forall |x: T| f.requires((x,)) { v.into_iter().filter_map(f).collect() }
#[verifier::external_body]
pub fn vf_iter_any<T, F: FnMut(&T) -> bool>(v: &Vec<T>, f: F) -> (r: bool) requires forall |x: &T| f.requires((x,)) { v.iter().any(f) }

#[verifier::external_body]
pub fn vf_runtime_assert(c: bool) requires strict() ==> c, ensures c { assert!(c) }
pub uninterp spec fn borrow_view<T: ?Sized>(t: &T) -> Seq<u8>;
pub trait VfBorrow { fn vf_borrow(&self) -> (r: &[u8]) ensures r@ == borrow_view(self); }
impl<T: Borrow<[u8]>> VfBorrow for T { #[verifier::external_body] fn vf_borrow(&self) -> (r: &[u8]) { self.borrow() } }
}
}
pub mod md5 {
use vstd::prelude::*;
verus! {
pub type Digest = [u8; 16];
#[verifier::external_body]
pub fn compute(data: &Vec<u8>) -> (r: Digest) { unimplemented!() }
}
}
