use vstd::prelude::*;
use std::ops::DerefMut;
verus! {

pub uninterp spec fn spec_md5(s: Seq<u8>) -> Seq<u8>;
pub broadcast axiom fn md5_len(s: Seq<u8>) ensures #[trigger] spec_md5(s).len() == 16;

mod md5 {
    use vstd::prelude::*;
    use super::*;
    pub type Digest = [u8; 16];
    #[verifier::external_body]
    pub fn compute(data: &Vec<u8>) -> (r: Digest) ensures r@ == spec_md5(data@) { unimplemented!() }
}

pub uninterp spec fn strict() -> bool;
#[verifier::external_body]
pub fn vf_runtime_assert(c: bool) requires strict() ==> c, ensures c { assert!(c) }

pub open spec fn enc16(x: int) -> Seq<u8> { seq![(x / 256) as u8, (x % 256) as u8] }
pub open spec fn be16(s: Seq<u8>) -> int { s[0] as int * 256 + s[1] as int }

pub open spec fn upd(s: Seq<u8>, off: int, b: Seq<u8>) -> Seq<u8> {
    Seq::new(s.len(), |i:int| if off <= i < off + b.len() { b[i-off] } else { s[i] })
}

#[verifier::external_type_specification]
#[verifier::external_body]
pub struct ExTryFromSliceError(std::array::TryFromSliceError);

pub trait Writer {
    spec fn out(&self) -> Seq<u8>;
    fn len(&self) -> (r: usize) ensures r == self.out().len();
    fn write_bytes_at(&mut self, bytes: &[u8], offset: usize) 
       requires strict() ==> offset + bytes@.len() <= old(self).out().len()
       ensures offset + bytes@.len() <= old(self).out().len(), final(self).out() == upd(old(self).out(), offset as int, bytes@);
}

pub struct VecWriter {
    pub data: Vec<u8>,
}
impl VecWriter {
    #[inline]
    pub fn new() -> (r: Self) ensures r.data@.len() == 0 {
        VecWriter { data: Vec::new() }
    }
}
impl Writer for VecWriter {
    open spec fn out(&self) -> Seq<u8> { self.data@ }
    #[inline]
    fn len(&self) -> usize {
        self.data.len()
    }
    #[verifier::external_body]
    fn write_bytes_at(&mut self, bytes: &[u8], offset: usize) {
        unimplemented!()
    }
}

pub struct RandomVector { pub value: [u8; 4] }
pub struct Hidden {
    pub attribute_type: u16,
    pub value: Vec<u8>,
}
pub struct HostName {
    pub value: Vec<u8>,
}
pub enum AVP {
    HostName(HostName),
    Hidden(Hidden),
}
use AVP::*;
pub trait WritableAVP {
    spec fn wire(&self) -> Seq<u8>;
    fn write<W: Writer>(&self, writer: &mut W)
      ensures final(writer).out() == old(writer).out() + self.wire(), self.wire().len() >= 2;
}
impl WritableAVP for AVP {
    uninterp spec fn wire(&self) -> Seq<u8>;
    #[verifier::external_body]
    fn write<W: Writer>(&self, writer: &mut W) { unimplemented!() }
}
pub trait VfBe16 { fn vf_to_be_bytes(self) -> (r: [u8;2]); }
impl VfBe16 for u16 { #[verifier::external_body] fn vf_to_be_bytes(self) -> (r: [u8;2]) ensures r@ == enc16(self as int) { self.to_be_bytes() } }
#[verifier::external_body] fn vf_u16_from_be_bytes(b: [u8;2]) -> (r: u16) ensures r as int == be16(b@) { u16::from_be_bytes(b) }
pub trait VfTryInto2 { fn vf_try_into(&self) -> (r: Result<[u8;2], std::array::TryFromSliceError>); }
impl VfTryInto2 for [u8] { #[verifier::external_body] fn vf_try_into(&self) -> (r: Result<[u8;2], std::array::TryFromSliceError>) ensures self@.len() == 2 ==> r is Ok && r->Ok_0@ == self@ { self.try_into() } }

pub struct Header {}
impl Header { pub const LENGTH: u16 = 6; }


pub enum DecodeError { EmptyHiddenAVP, MisalignedHiddenAVP, InvalidOriginalAVPLength(u16), UnknownAvp(u16) }
pub type DecodeResult<T> = Result<T, DecodeError>;
pub struct SliceReader<'a> { data: &'a [u8] }
impl<'a> SliceReader<'a> {
    pub closed spec fn rem(&self) -> Seq<u8> { self.data@ }
    #[verifier::external_body] pub fn from(data: &'a [u8]) -> (r: Self) ensures r.rem() == data@ { Self { data } }
    #[verifier::external_body] pub fn len(&self) -> (r: usize) ensures r == self.rem().len() { unimplemented!() }
    #[verifier::external_body] pub unsafe fn read_u16_be_unchecked(&mut self) -> (r: u16) 
       requires old(self).rem().len() >= 2 ensures r as int == be16(old(self).rem()), final(self).rem() == old(self).rem().skip(2) { unimplemented!() }
    #[verifier::external_body] pub fn subreader(&mut self, length: usize) -> (r: Self) 
       requires length <= old(self).rem().len() ensures r.rem() == old(self).rem().take(length as int) { unimplemented!() }
}
pub uninterp spec fn spec_decode_avp(t: u16, p: Seq<u8>) -> DecodeResult<AVP>;
#[verifier::external_body]
fn decode_avp(attribute_type: u16, reader: &mut SliceReader) -> (r: DecodeResult<AVP>) ensures r == spec_decode_avp(attribute_type, old(reader).rem()) { unimplemented!() }

pub open spec fn dkey(c: Seq<u8>, t: Seq<u8>, secret: Seq<u8>, rv: Seq<u8>, i: int) -> Seq<u8> {
    if i <= 0 { spec_md5(t + secret + rv) } else { spec_md5(secret + c.subrange(16*(i-1), 16*i)) }
}
pub open spec fn decrypt(c: Seq<u8>, t: Seq<u8>, secret: Seq<u8>, rv: Seq<u8>) -> Seq<u8> {
    Seq::new(c.len(), |k:int| c[k] ^ dkey(c, t, secret, rv, k/16)[k%16])
}
pub open spec fn spec_reveal(h: Hidden, secret: Seq<u8>, rv: Seq<u8>) -> DecodeResult<AVP> {
    let c = h.value@;
    if c.len() == 0 { Err(DecodeError::EmptyHiddenAVP) }
    else if c.len() % 16 != 0 { Err(DecodeError::MisalignedHiddenAVP) }
    else {
        let p = decrypt(c, enc16(h.attribute_type as int), secret, rv);
        let total = be16(p);
        if total < 6 || total > 1023 || total - 6 > p.len() - 2 { Err(DecodeError::InvalidOriginalAVPLength(total as u16)) }
        else { spec_decode_avp(h.attribute_type, p.subrange(2, 2 + total - 6)) }
    }
}

// ---------- RFC 2661 4.3 specification ----------
pub open spec fn xor_block(a: Seq<u8>, k: Seq<u8>) -> Seq<u8> { Seq::new(16, |j:int| a[j] ^ k[j]) }
pub open spec fn cblock(p: Seq<u8>, t: Seq<u8>, secret: Seq<u8>, rv: Seq<u8>, i: int) -> Seq<u8>
  decreases i
{
    if i <= 0 { xor_block(p.subrange(0, 16), spec_md5(t + secret + rv)) }
    else { xor_block(p.subrange(16*i, 16*i+16), spec_md5(secret + cblock(p, t, secret, rv, i-1))) }
}
pub open spec fn encrypt(p: Seq<u8>, t: Seq<u8>, secret: Seq<u8>, rv: Seq<u8>) -> Seq<u8> {
    Seq::new(p.len(), |k:int| cblock(p, t, secret, rv, k/16)[k%16])
}
pub open spec fn plain(wire: Seq<u8>, lp: Seq<u8>, ap: Seq<u8>) -> Seq<u8> {
    let body = enc16(wire.len() as int + 4) + wire.skip(2) + lp;
    let pad = (16 - body.len() % 16) % 16;
    body + ap.take(pad)
}

impl AVP {
    pub const CRYPTO_CHUNK_SIZE: usize = 16;

    const ATTRIBUTE_TYPE_SIZE: usize = 2;
    const MAX_LENGTH: u16 = 1023;

    pub fn hide(
        self,
        secret: &[u8],
        random_vector: &RandomVector,
        length_padding: &[u8],
        alignment_padding: &[u8; Self::CRYPTO_CHUNK_SIZE],
    ) -> (res: Self) 
      requires strict() ==> self.wire().len() + 4 <= 1023,
         secret@.len() + 16 + 8 < usize::MAX, length_padding@.len() + 2048 < usize::MAX, self.wire().len() + 8 < usize::MAX,
      ensures 
        self is Hidden ==> res == self,
        !(self is Hidden) ==> self.wire().len() + 4 <= 1023 && res is Hidden && res->Hidden_0.attribute_type as int == be16(self.wire().take(2))
          && res->Hidden_0.value@ == encrypt(plain(self.wire(), length_padding@, alignment_padding@), self.wire().take(2), secret@, random_vector.value@),
    {
        match &self {
            Hidden(_) => self,
            avp => {
                let chunk_size: usize = Self::CRYPTO_CHUNK_SIZE;

                let mut writer = VecWriter::new();

                WritableAVP::write(avp, &mut writer);
                vf_runtime_assert(writer.len() >= Self::ATTRIBUTE_TYPE_SIZE);

                // Extract Attribute Type
                let attribute_type_octets: [u8; Self::ATTRIBUTE_TYPE_SIZE] =
                    writer.data[..Self::ATTRIBUTE_TYPE_SIZE].vf_try_into().unwrap();

                // Get total AVP length
                let length =
                    writer.data.len() + Header::LENGTH as usize - Self::ATTRIBUTE_TYPE_SIZE;

                // Overwrite Attribute Type with AVP length
                vf_runtime_assert(length <= Self::MAX_LENGTH as usize);
                let length_octets = (length as u16).vf_to_be_bytes();
                writer.write_bytes_at(&length_octets, 0);

                let mut input = writer.data;

                // Add random length padding
                input.extend_from_slice(length_padding);

                let chunk_padding_length = (chunk_size - (input.len() % chunk_size)) % chunk_size;

                // Pad input to chunk size
                input.extend_from_slice(&alignment_padding[..chunk_padding_length]);

                let n_chunks = input.len() / chunk_size;
                let ghost p0 = input@;
                let ghost t = attribute_type_octets@;
                let ghost sec = secret@;
                let ghost rv = random_vector.value@;
                proof {
                    assert(p0 =~= plain(avp.wire(), length_padding@, alignment_padding@));
                    assert(t =~= avp.wire().take(2));
                    assert(p0.len() % 16 == 0 && p0.len() >= 16);
                }

                // The largest intermediate buffer size is the size of the final intermediate value
                let buffer_length =
                    Self::ATTRIBUTE_TYPE_SIZE + secret.len() + random_vector.value.len();
                let mut buffer = Vec::with_capacity(buffer_length);

                // The first intermediate value is MD5(Attribute type + secret + RV)
                buffer.extend_from_slice(&attribute_type_octets);
                buffer.extend_from_slice(secret);
                buffer.extend_from_slice(&random_vector.value);
                let mut intermediate = md5::compute(&buffer);
                // Encode with XOR
                for j in 0..chunk_size 
                  invariant
                    chunk_size == 16, input@.len() == p0.len(), p0.len() >= 16,
                    forall |m:int| 0 <= m < j ==> input@[m] == p0[m] ^ intermediate@[m],
                    forall |m:int| j <= m < p0.len() ==> input@[m] == p0[m],
                {
                    input[j] ^= intermediate[j];
                }
                proof {
                    broadcast use md5_len;
                    assert(buffer@ =~= t + sec + rv);
                    assert forall |k:int| 0 <= k < 16 implies input@[k] == encrypt(p0, t, sec, rv)[k] by {
                        assert(cblock(p0,t,sec,rv,0)[k] == p0.subrange(0,16)[k] ^ spec_md5(t+sec+rv)[k]);
                    }
                }

                if n_chunks > 1 {
                    // The shared secret is a prefix for all chunks except the first one, so set it once for the entire loop
                    buffer.clear();
                    buffer.extend_from_slice(secret);

                    // Loop over chunks
                    for i in 1..n_chunks 
                      invariant
                        chunk_size == 16, input@.len() == p0.len(), p0.len() == n_chunks * 16, n_chunks > 1, 1 <= i, n_chunks * 16 <= usize::MAX,
                        buffer@.len() >= sec.len(), buffer@.take(sec.len() as int) == sec, sec == secret@,
                        sec.len() + 16 + 8 < usize::MAX,
                        forall |k:int| 0 <= k < 16 * i ==> input@[k] == encrypt(p0, t, sec, rv)[k],
                        forall |k:int| 16 * i <= k < p0.len() ==> input@[k] == p0[k],
                    {
                        let prev_chunk_start = (i - 1) * chunk_size;
                        let chunk_start = prev_chunk_start + chunk_size;

                        // Retain only the prefix which is guaranteed to be the shared secret
                        buffer.truncate(secret.len());

                        // The intermediate value for a given chunk is MD5(secret + previous chunk)
                        buffer.extend_from_slice(&input[prev_chunk_start..chunk_start]);
                        intermediate = md5::compute(&buffer);
                        let ghost in0 = input@;
                        proof {
                            broadcast use md5_len;
                            let prev = in0.subrange(prev_chunk_start as int, chunk_start as int);
                            assert(buffer@ =~= sec + prev);
                            assert(prev =~= cblock(p0, t, sec, rv, i - 1)) by {
                                assert forall |m:int| 0 <= m < 16 implies prev[m] == cblock(p0,t,sec,rv,i-1)[m] by {
                                    let k = prev_chunk_start + m;
                                    assert(in0[k] == encrypt(p0,t,sec,rv)[k]);
                                    assert(k / 16 == i - 1 && k % 16 == m);
                                }
                            }
                        }

                        // Encode with XOR
                        for j in 0..chunk_size 
                          invariant
                            chunk_size == 16, input@.len() == p0.len(), in0.len() == p0.len(),
                            chunk_start == 16 * i, chunk_start + 16 <= p0.len(),
                            forall |m:int| 0 <= m < j ==> input@[chunk_start + m] == in0[chunk_start + m] ^ intermediate@[m],
                            forall |m:int| (0 <= m < chunk_start || chunk_start + j <= m < p0.len()) ==> input@[m] == in0[m],
                        {
                            input[chunk_start + j] ^= intermediate[j];
                        }
                        proof {
                            assert forall |k:int| 0 <= k < 16 * (i + 1) implies input@[k] == encrypt(p0, t, sec, rv)[k] by {
                                if k >= 16 * i {
                                    let m = k - 16 * i;
                                    assert(k / 16 == i && k % 16 == m);
                                    assert(input@[chunk_start + m] == in0[chunk_start + m] ^ intermediate@[m]);
                                    assert(cblock(p0,t,sec,rv,i as int)[m] == p0.subrange(16*i, 16*i+16)[m] ^ spec_md5(sec + cblock(p0,t,sec,rv,i-1))[m]);
                                } else {
                                    assert(input@[k] == in0[k]);
                                }
                            }
                        }
                    }
                }
                proof {
                    assert(input@ =~= encrypt(p0, t, sec, rv));
                }

                Hidden(Hidden {
                    attribute_type: vf_u16_from_be_bytes(attribute_type_octets),
                    value: input,
                })
            }
        }
    }

    pub fn reveal(self, secret: &[u8], random_vector: &RandomVector) -> (res: DecodeResult<Self>) 
      requires secret@.len() + 16 + 8 < usize::MAX,
      ensures self is Hidden ==> res == spec_reveal(self->Hidden_0, secret@, random_vector.value@),
              !(self is Hidden) ==> res == Ok::<AVP, DecodeError>(self),
    {
        if let Hidden(mut hidden) = self {
            let chunk_size: usize = Self::CRYPTO_CHUNK_SIZE;

            let chunk_data = &mut hidden.value;
            let ghost c0 = chunk_data@;
            let ghost t = enc16(hidden.attribute_type as int);
            let ghost sec = secret@;
            let ghost rv = random_vector.value@;

            if chunk_data.is_empty() {
                return Err(DecodeError::EmptyHiddenAVP);
            }
            if chunk_data.len() % chunk_size != 0 {
                return Err(DecodeError::MisalignedHiddenAVP);
            }

            let n_chunks = chunk_data.len() / chunk_size;

            // The largest size is the size of the final intermediate value
            let buffer_length =
                Self::ATTRIBUTE_TYPE_SIZE + secret.len() + random_vector.value.len();
            let mut buffer = Vec::with_capacity(buffer_length);

            if n_chunks > 1 {
                buffer.extend_from_slice(secret);

                // Loop over chunks in reverse order
                for i in it: (1..n_chunks).rev() 
                  invariant
                    chunk_size == 16, chunk_data@.len() == c0.len(), c0.len() == n_chunks * 16, n_chunks > 1,
                    buffer@.len() >= sec.len(), buffer@.take(sec.len() as int) == sec, sec == secret@,
                    sec.len() + 16 + 8 < usize::MAX, n_chunks * 16 <= usize::MAX,
                    0 <= it.index@ <= n_chunks - 1,
                    forall |k:int| 16 * (n_chunks - it.index@) <= k < c0.len() ==> chunk_data@[k] == decrypt(c0, t, sec, rv)[k],
                    forall |k:int| 0 <= k < 16 * (n_chunks - it.index@) ==> chunk_data@[k] == c0[k],
                {
                    assert(i == n_chunks - 1 - it.index@);
                    let prev_chunk_start = (i - 1) * chunk_size;
                    let chunk_start = prev_chunk_start + chunk_size;

                    // Retain only the prefix which is guaranteed to be the shared secret
                    buffer.truncate(secret.len());

                    // The intermediate value for a given chunk is MD5(secret + previous chunk)
                    buffer.extend_from_slice(&chunk_data[prev_chunk_start..chunk_start]);
                    let intermediate = md5::compute(&buffer);
                    let ghost in0 = chunk_data@;
                    proof {
                        broadcast use md5_len;
                        assert(buffer@ =~= sec + c0.subrange(16*(i-1), 16*i)) by {
                            assert(in0.subrange(prev_chunk_start as int, chunk_start as int) =~= c0.subrange(16*(i-1), 16*i));
                        }
                    }

                    // Decode with XOR
                    for j in 0..chunk_size 
                      invariant chunk_size == 16, chunk_data@.len() == c0.len(), chunk_start + 16 <= c0.len(), in0.len() == c0.len(),
                        chunk_start == 16 * i,
                        forall |m:int| 0 <= m < j ==> chunk_data@[chunk_start + m] == in0[chunk_start + m] ^ intermediate@[m],
                        forall |m:int| (0 <= m < chunk_start || chunk_start + j <= m < c0.len()) ==> chunk_data@[m] == in0[m],
                    {
                        chunk_data[chunk_start + j] ^= intermediate[j];
                    }
                    proof {
                        assert forall |k:int| 16 * i <= k < c0.len() implies chunk_data@[k] == decrypt(c0, t, sec, rv)[k] by {
                            if k < 16 * (i + 1) {
                                let m = k - 16 * i;
                                assert(k / 16 == i && k % 16 == m);
                                assert(chunk_data@[chunk_start + m] == in0[chunk_start + m] ^ intermediate@[m]);
                                assert(in0[k] == c0[k]);
                            } else {
                                assert(chunk_data@[k] == in0[k]);
                            }
                        }
                        assert forall |k:int| 0 <= k < 16 * i implies chunk_data@[k] == c0[k] by {
                            assert(chunk_data@[k] == in0[k]);
                        }
                    }
                }
            }

            proof {
                assert forall |k:int| 16 <= k < c0.len() implies chunk_data@[k] == decrypt(c0, t, sec, rv)[k] by {}
                assert forall |k:int| 0 <= k < 16 implies chunk_data@[k] == c0[k] by {}
            }
            // The final intermediate value is MD5(Attribute type + secret + RV)
            buffer.clear();
            buffer.extend_from_slice(&hidden.attribute_type.vf_to_be_bytes());
            buffer.extend_from_slice(secret);
            buffer.extend_from_slice(&random_vector.value);
            let intermediate = md5::compute(&buffer);
            let ghost in1 = chunk_data@;
            proof { broadcast use md5_len; assert(buffer@ =~= t + sec + rv); }

            // Decode with XOR
            for j in 0..chunk_size 
               invariant chunk_size == 16, chunk_data@.len() == c0.len(), c0.len() >= 16, in1.len() == c0.len(),
                        forall |m:int| 0 <= m < j ==> chunk_data@[m] == in1[m] ^ intermediate@[m],
                        forall |m:int| j <= m < c0.len() ==> chunk_data@[m] == in1[m],
            {
                chunk_data[j] ^= intermediate[j];
            }
            proof {
                assert forall |k:int| 0 <= k < c0.len() implies chunk_data@[k] == decrypt(c0, t, sec, rv)[k] by {
                    if k < 16 { assert(k / 16 == 0 && k % 16 == k); assert(chunk_data@[k] == in1[k] ^ intermediate@[k]); assert(in1[k] == c0[k]); }
                    else { assert(chunk_data@[k] == in1[k]); }
                }
                assert(chunk_data@ =~= decrypt(c0, t, sec, rv));
            }

            // Retreive original length, SliceReader implementation of Reader is safe
            let mut reader = SliceReader::from(chunk_data.deref_mut());
            let total_length = unsafe { reader.read_u16_be_unchecked() };
            if !(Header::LENGTH..=Self::MAX_LENGTH).contains(&total_length) {
                return Err(DecodeError::InvalidOriginalAVPLength(total_length));
            }
            let payload_length = total_length - Header::LENGTH;
            if payload_length as usize > reader.len() {
                return Err(DecodeError::InvalidOriginalAVPLength(total_length));
            }

            // Decode payload
            let mut payload_reader = reader.subreader(payload_length as usize);
            proof {
                let p = decrypt(c0, t, sec, rv);
                assert(payload_reader.rem() =~= p.subrange(2, 2 + total_length as int - 6));
            }

            return decode_avp(hidden.attribute_type, &mut payload_reader);
        }

        Ok(self)
    }
}
}
fn main(){}
