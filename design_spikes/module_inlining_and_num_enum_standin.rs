#![allow(unused_imports, dead_code)]
use vstd::prelude::*;

pub mod common {
    mod reader {
        use vstd::prelude::*;
        verus! {
        pub trait Reader<T> {
            spec fn rem(&self) -> Seq<u8>;
            fn len(&self) -> (r: usize) ensures r == self.rem().len();
            unsafe fn read_u16_be_unchecked(&mut self) -> (r: u16)
                requires old(self).rem().len() >= 2,
                ensures final(self).rem() == old(self).rem().skip(2);
        }
        }
    }
    pub use reader::*;

    mod decode_error {
        use vstd::prelude::*;
        verus! {
        #[derive(Debug, PartialEq)]
        pub enum DecodeError { IncompleteAVP(u16), Bad(u16) }
        }
    }
    pub use decode_error::*;
    mod decode_result {
        use vstd::prelude::*;
        use crate::common::DecodeError;
        verus! {
        pub type DecodeResult<T> = Result<T, DecodeError>;
        }
    }
    pub use decode_result::*;
}
pub use common::Reader;

mod message {
    pub mod avp {
        pub mod types {
            mod result_code {
                pub mod error {
                    use vstd::prelude::*;
                    use crate::common::{DecodeError, DecodeResult, Reader};
                    verus! {
                    #[derive(Clone, Copy, Debug, Eq, PartialEq)]
                    pub enum ErrorType { Ok, NoControlConnectionExists, WrongLength }
                    pub open spec fn spec_error_type(x: u16) -> Option<ErrorType> {
                        if x == 0 { Some(ErrorType::Ok) } else if x == 1 { Some(ErrorType::NoControlConnectionExists) } else if x == 2 { Some(ErrorType::WrongLength) } else { None }
                    }
                    pub struct VfPrimErr {}
                    impl TryFrom<u16> for ErrorType {
                        type Error = VfPrimErr;
                        #[verifier::external_body]
                        fn try_from(x: u16) -> (r: Result<Self, VfPrimErr>)
                          ensures r is Ok <==> spec_error_type(x) is Some, r is Ok ==> Some(r->Ok_0) == spec_error_type(x)
                        { unimplemented!() }
                    }
                    impl From<ErrorType> for u16 {
                        #[verifier::external_body]
                        fn from(e: ErrorType) -> (r: u16) ensures spec_error_type(r) == Some(e) { unimplemented!() }
                    }
                    #[derive(Clone, Debug, Eq, PartialEq)]
                    pub struct Error { pub error_type: ErrorType }
                    impl Error {
                        pub(crate) unsafe fn try_read<T>(reader: &mut impl Reader<T>) -> (res: DecodeResult<Self>)
                          requires old(reader).rem().len() >= 2
                        {
                            let error_raw = reader.read_u16_be_unchecked();
                            let error_type = error_raw
                                .try_into()
                                .map_err(|_vf| DecodeError::Bad(error_raw))?;
                            Ok(Self { error_type })
                        }
                        pub fn code(&self) -> u16 { self.error_type.into() }
                    }
                    }
                }
                pub use error::*;
            }
            pub use result_code::*;
        }
    }
}
pub use message::*;
fn main() {}
