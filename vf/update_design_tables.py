#!/usr/bin/env python3
"""Rewrites the seeded-changes table of DESIGN.md section 9 from seeded/*/meta.json (vf/seeded_report.py)."""
import os, re, subprocess, sys
VERIF = os.path.dirname(os.path.dirname(os.path.abspath(__file__)))
table = subprocess.run([sys.executable, os.path.join(VERIF, 'vf', 'seeded_report.py')], capture_output=True, text=True).stdout.strip()
p = os.path.join(VERIF, 'DESIGN.md')
s = open(p).read()
m = re.search(r'(?m)^\| id \| seeded against \|.*\n(\|.*\n)+', s)
assert m, 'table not found'
s = s[:m.start()] + table + '\n' + s[m.end():]
open(p, 'w').write(s)
print('table rows:', table.count('\n') - 1)
