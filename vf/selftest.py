#!/usr/bin/env python3
"""Mutation self-test (DESIGN.md 2.7): applies deliberate property-breaking (and some property-preserving)
changes to a scratch copy of /repo and reports which checks alarm.  Not a registered check."""
import json, os, re, shutil, subprocess, sys, time
os.environ['VF_EVIDENCE_DIR'] = '/tmp/vf_evidence_scratch'   # never overwrite the committed evidence from a changed tree
VERIF = os.path.dirname(os.path.dirname(os.path.abspath(__file__)))

ALLP = ['C%02d' % i for i in range(1, 21)]

MUTANTS = [
 # name, file, old, new, expected alarms (subset must alarm), must-not-alarm
 ('hostname_guard_stricter', 'src/message/avp/types/host_name.rs', 'if reader.is_empty() {', 'if reader.len() < 2 {', ['C05', 'C03'], ['C01', 'C02', 'C06', 'C09']),
 ('hostname_guard_lenient', 'src/message/avp/types/host_name.rs', 'if reader.is_empty() {', 'if false {', ['C05'], ['C03', 'C01', 'C06']),
 ('control_backpatch_absolute', 'src/message/control_message.rs', 'writer.write_bytes_at(&(length as u16).to_be_bytes(), length_position);', 'writer.write_bytes_at(&(length as u16).to_be_bytes(), 2);', ['C09'], ['C01', 'C05']),
 ('greedy_break_on_vendor', 'src/message/avp.rs', 'reader.skip_bytes(header.payload_length as usize);\n                continue;', 'reader.skip_bytes(header.payload_length as usize);\n                break;', ['C05'], ['C01', 'C06']),
 ('vendor_error_value', 'src/message/avp.rs', 'DecodeError::UnsupportedVendorId(header.vendor_id)', 'DecodeError::UnsupportedVendorId(header.attribute_type)', ['C20'], ['C05', 'C01', 'C03']),
 ('data_swap_ns_nr_write', 'src/message/data_message.rs', 'writer.write_u16_be(ns);\n            writer.write_u16_be(nr);', 'writer.write_u16_be(nr);\n            writer.write_u16_be(ns);', ['C06'], ['C05', 'C01']),
 ('hide_drop_secret', 'src/message/avp.rs', 'buffer.clear();\n                    buffer.extend_from_slice(secret);\n\n                    // Loop over chunks\n', 'buffer.clear();\n\n                    // Loop over chunks\n', ['C12'], ['C05']),
 ('tiebreaker_guard_off_by_one', 'src/message/avp/types/tie_breaker.rs', 'if reader.len() < Self::LENGTH {', 'if reader.len() < Self::LENGTH - 1 {', ['C02'], ['C06']),
 ('avp_write_no_assert', 'src/message/avp.rs', '        assert!(length <= Self::MAX_LENGTH as usize);\n\n        let msb', '        let msb', ['C07'], ['C05', 'C01']),
 ('rename_local_harmless', 'src/message/avp/types/vendor_name.rs', 'let data = reader\n            .bytes(reader.len())', 'let data = reader\n            .bytes(reader.len() + 0)', [], ['C01', 'C05', 'C03', 'C06']),
 ('control_length_minus_one', 'src/message/control_message.rs', 'let payload_length = length as usize - FIXED_LENGTH;', 'let payload_length = length as usize - FIXED_LENGTH + 1;', ['C05'], ['C06']),
 ('version_check_inverted_field', 'src/message.rs', 'if version != Self::PROTOCOL_VERSION {', 'if version > Self::PROTOCOL_VERSION {', ['C14', 'C05'], ['C06']),
 ('println_in_decode', 'src/message/data_message.rs', 'let tunnel_id = unsafe { reader.read_u16_be_unchecked() };', 'let tunnel_id = unsafe { reader.read_u16_be_unchecked() };\n        eprintln!("tunnel {tunnel_id}");', ['C19'], []),

 # ---- property-preserving changes: no check may alarm ---------------------------------------------------------------
 ('H_guard_flipped_operands', 'src/message/avp/types/tie_breaker.rs', 'if reader.len() < Self::LENGTH {', 'if Self::LENGTH > reader.len() {', [], ALLP),
 ('H_is_empty_as_len', 'src/message/avp/types/host_name.rs', 'if reader.is_empty() {', 'if reader.len() == 0 {', [], ALLP),
 ('H_unspecified_error_variant', 'src/message/avp/types/proxy_authen_type.rs', '.map_err(|_| DecodeError::IncompleteAVP(Self::ATTRIBUTE_TYPE))', '.map_err(|_| DecodeError::AVPReadError(Self::ATTRIBUTE_TYPE))', [], ALLP),
 ('H_control_hoist_const', 'src/message/control_message.rs', 'let payload_length = length as usize - FIXED_LENGTH;', 'let total = length as usize;\n        let payload_length = total - FIXED_LENGTH;', [], ALLP),
 ('H_data_equivalent_check', 'src/message/data_message.rs', 'if (length as usize) < header_length || length as usize - header_length > reader.len() {', 'if (length as usize) < header_length || length as usize > reader.len() + header_length {', [], ALLP),
 ('H_rename_loop_var_hide', 'src/message/avp.rs', 'for j in 0..chunk_size {\n                    input[j] ^= intermediate[j];\n                }', 'for k in 0..chunk_size {\n                    input[k] ^= intermediate[k];\n                }', [], ALLP),
 ('H_new_unused_helper', 'src/message/avp/header.rs', 'impl Header {\n    pub const LENGTH: u16 = 6;', 'impl Header {\n    pub const LENGTH: u16 = 6;\n\n    #[allow(dead_code)]\n    pub fn total_length(&self) -> u16 {\n        self.payload_length + Self::LENGTH\n    }', [], ALLP),
 ('H_avp_write_local_rename', 'src/message/avp.rs', 'let end_position = writer.len();\n        let length = end_position - start_position;\n\n        let is_hidden', 'let end = writer.len();\n        let length = end - start_position;\n\n        let is_hidden', [], ALLP),
 ('H_greedy_comment_and_reorder', 'src/message/avp.rs', 'result.push(Err(DecodeError::UnsupportedVendorId(header.vendor_id)));\n                reader.skip_bytes(header.payload_length as usize);', 'reader.skip_bytes(header.payload_length as usize);\n                result.push(Err(DecodeError::UnsupportedVendorId(header.vendor_id)));', [], ALLP),
 ('H_err_identity_control_len', 'src/message/control_message.rs', 'if (length as usize) < FIXED_LENGTH {\n            return Err(vec![DecodeError::IncompleteControlMessageHeader]);', 'if (length as usize) < FIXED_LENGTH {\n            return Err(vec![DecodeError::IncompleteControlMessagePayload]);', [], ALLP),
 ('H_err_value_avplen', 'src/message/avp.rs', 'result.push(Err(DecodeError::InvalidAVPLength(header.payload_length)));', 'result.push(Err(DecodeError::InvalidAVPLength(header.payload_length + 6)));', [], ALLP),
 ('H_data_err_variant', 'src/message/data_message.rs', 'return Err(DecodeError::IncompleteDataMessagePayload);', 'return Err(DecodeError::MessageReadError);', [], ALLP),
 ('H_flags_err_variant', 'src/message/flags.rs', 'return Err(DecodeError::IncompleteFlags);', 'return Err(DecodeError::MessageReadError);', [], ALLP),
]

def main():
    only = sys.argv[1:]
    scratch = '/tmp/vf_selftest_repo'
    results = []
    for name, f, old, new, expect, forbid in MUTANTS:
        if only and name not in only:
            continue
        os.makedirs(scratch, exist_ok=True)
        # committed state of /repo (never the working tree, which a seeded-change run may have patched)
        clean = scratch + '_clean'
        shutil.rmtree(clean, ignore_errors=True)
        os.makedirs(clean)
        subprocess.check_call('git -C /repo archive HEAD | tar -x -C %s' % clean, shell=True)
        subprocess.check_call(['rsync', '-a', '--delete', '--exclude', 'target', '--exclude', '.vf_replay', clean + '/', scratch + '/'])
        shutil.rmtree(clean, ignore_errors=True)
        p = os.path.join(scratch, f)
        s = open(p).read()
        if old not in s:
            print('MUTANT %s: pattern not found' % name)
            continue
        open(p, 'w').write(s.replace(old, new, 1))
        env = dict(os.environ, VF_REPO=scratch)
        t = time.time()
        args = [os.path.join(VERIF, 'check'), '--all', '--no-canary'] + ([] if os.environ.get('VF_SELFTEST_KANI') else ['--no-kani'])
        r = subprocess.run(args, capture_output=True, text=True, env=env, cwd=VERIF)
        alarms = sorted(set(re.findall(r'^VIOLATION property=(C\d\d)', r.stdout, flags=re.M)))
        inc = sorted(set(re.findall(r'^INCONCLUSIVE: property=(C\d\d)', r.stdout, flags=re.M)))
        missed = [e for e in expect if e not in alarms]
        false = [e for e in forbid if e in alarms]
        print('MUTANT %-32s alarms=%s inconclusive=%s  missed=%s false=%s  (%.0fs)' % (name, alarms, inc, missed, false, time.time() - t))
        results.append((name, alarms, inc, missed, false))
    shutil.rmtree(scratch, ignore_errors=True)
    return 0

if __name__ == '__main__':
    sys.exit(main())
