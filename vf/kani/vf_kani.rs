// Kani harness module (DESIGN.md §2.2): added to a scratch copy of /repo as `message::avp::vf_kani`
// (a descendant of both `message` and `avp`, so it can name crate-private items).  Every harness here is
// loop-free over a full symbolic domain unless its name ends in `_bounded`.
#![allow(unused_imports, dead_code)]
use super::header::{Flags as HdrFlags, Header};
use super::types::result_code::{CdnCode, CodeValue, ErrorType, StopCcnCode};
use super::types::*;
use super::{avp_name, decode_avp, AVP};
use crate::common::{DecodeError, Reader, SliceReader, VecWriter, Writer};
use crate::message::flags::{Flags as MsgFlags, MessageFlagType};

// ---------------------------------------------------------------------------------------------
// SymReader: a conforming reader whose remaining length is symbolic and whose reads return arbitrary
// values; every unchecked call asserts its precondition.
pub struct SymReader {
    pub rem: usize,
}
impl Reader<Vec<u8>> for SymReader {
    fn is_empty(&self) -> bool { self.rem == 0 }
    fn len(&self) -> usize { self.rem }
    fn subreader(&mut self, length: usize) -> Self {
        assert!(length <= self.rem, "Reader::subreader precondition");
        self.rem -= length;
        SymReader { rem: length }
    }
    fn bytes(&mut self, length: usize) -> Option<Vec<u8>> {
        if length > self.rem { return None; }
        self.rem -= length;
        // only small concrete lengths are requested from loop-free decoders
        let mut v = Vec::new();
        let mut i = 0;
        while i < length && i < 16 { v.push(kani::any()); i += 1; }
        Some(v)
    }
    unsafe fn read_u8_unchecked(&mut self) -> u8 { assert!(self.rem >= 1, "read_u8 precondition"); self.rem -= 1; kani::any() }
    unsafe fn read_u16_be_unchecked(&mut self) -> u16 { assert!(self.rem >= 2, "read_u16 precondition"); self.rem -= 2; kani::any() }
    unsafe fn read_u32_be_unchecked(&mut self) -> u32 { assert!(self.rem >= 4, "read_u32 precondition"); self.rem -= 4; kani::any() }
    unsafe fn read_u64_be_unchecked(&mut self) -> u64 { assert!(self.rem >= 8, "read_u64 precondition"); self.rem -= 8; kani::any() }
    fn skip_bytes(&mut self, length: usize) { assert!(length <= self.rem, "skip precondition"); self.rem -= length; }
}

fn msg_flags_of(w: u16) -> MsgFlags {
    let b = w.to_be_bytes();
    let mut r = SliceReader::from(&b);
    MsgFlags::read(&mut r).unwrap()
}

// ---- C14 / C05 / C04: header flag word, all 65 536 words --------------------------------------------
#[kani::proof]
fn msg_flags_type_length_sequence() {
    let w: u16 = kani::any();
    let f = msg_flags_of(w);
    let wi = w as u32;
    assert!(matches!(f.get_type(), MessageFlagType::Control) == ((wi / 256) % 2 == 1));
    assert!(f.has_length() == ((wi / 512) % 2 == 1));
    assert!(f.has_ns_nr() == ((wi / 4096) % 2 == 1));
    kani::cover!(true);
}
#[kani::proof]
fn msg_flags_offset_priority_version() {
    let w: u16 = kani::any();
    let f = msg_flags_of(w);
    let wi = w as u32;
    assert!(f.has_offset() == ((wi / 16384) % 2 == 1));
    assert!(f.is_prioritized() == ((wi / 32768) % 2 == 1));
    assert!(f.get_version() as u32 == (wi / 16) % 16);
    kani::cover!(true);
}
#[kani::proof]
#[kani::unwind(18)]
fn msg_flags_reserved_bits_ok() {
    let w: u16 = kani::any();
    let f = msg_flags_of(w);
    let wi = w as u32;
    assert!(f.reserved_bits_ok() == (wi % 16 == 0 && (wi / 1024) % 4 == 0 && (wi / 8192) % 2 == 0));
    kani::cover!(true);
}
#[kani::proof]
fn msg_flags_new() {
    let control: bool = kani::any();
    let (l, s, o, p): (bool, bool, bool, bool) = (kani::any(), kani::any(), kani::any(), kani::any());
    let version: u8 = kani::any();
    kani::assume(version <= 15);
    let t = if control { MessageFlagType::Control } else { MessageFlagType::Data };
    let f = MsgFlags::new(t, l, s, o, p, version);
    let mut w = VecWriter::new();
    f.write(&mut w);
    let word = u16::from_be_bytes([w.data[0], w.data[1]]) as u32;
    let expect = (if control { 256 } else { 0 }) + (if l { 512 } else { 0 }) + (if s { 4096 } else { 0 })
        + (if o { 16384 } else { 0 }) + (if p { 32768 } else { 0 }) + (version as u32) * 16;
    assert!(word == expect);
    assert!(w.data.len() == 2);
    kani::cover!(true);
}
#[kani::proof]
#[kani::should_panic]
fn msg_flags_new_refuses_wide_version() {
    let version: u8 = kani::any();
    kani::assume(version > 15);
    let _ = MsgFlags::new(MessageFlagType::Data, false, false, false, false, version);
    kani::cover!(true, "vf-returned"); // must be unreachable: `should_panic` alone is existential (kani_run.py checks this)
}

// ---- AVP header flags, all 256 octets -----------------------------------------------------------------
#[kani::proof]
fn avp_flags_all() {
    let o: u8 = kani::any();
    let f = HdrFlags::from(o);
    assert!(f.is_mandatory() == (o % 2 == 1));
    assert!(f.is_hidden() == ((o / 2) % 2 == 1));
    kani::cover!(true);
}

// ---- C16: enumerated fields on the macro-generated code, all 65 536 codes ------------------------------
#[kani::proof]
fn enum_error_type() {
    let x: u16 = kani::any();
    let r: Result<ErrorType, _> = ErrorType::try_from(x);
    assert!(r.is_ok() == (x <= 8));
    if let Ok(e) = r {
        let back: u16 = e.into();
        assert!(back == x);
        let expect = match e {
            ErrorType::Ok => 0, ErrorType::NoControlConnectionExists => 1, ErrorType::WrongLength => 2,
            ErrorType::OutOfRangeOrBadReserved => 3, ErrorType::InsufficientResources => 4,
            ErrorType::InvalidSessionId => 5, ErrorType::Generic => 6, ErrorType::TryAnotherDestination => 7,
            ErrorType::UnknownMandatoryAvp => 8,
        };
        assert!(expect == x);
    }
    kani::cover!(true);
}
#[kani::proof]
fn enum_proxy_authen_type() {
    let x: u16 = kani::any();
    let r: Result<ProxyAuthenType, _> = ProxyAuthenType::try_from(x);
    assert!(r.is_ok() == (x <= 5));
    if let Ok(e) = r {
        let back: u16 = e.into();
        assert!(back == x);
        let expect = match e {
            ProxyAuthenType::Reserved => 0, ProxyAuthenType::TextualUserNamePasswordExchange => 1,
            ProxyAuthenType::PppChap => 2, ProxyAuthenType::PppPap => 3, ProxyAuthenType::NoAuthentication => 4,
            ProxyAuthenType::MicrosoftChapVersion1 => 5,
        };
        assert!(expect == x);
    }
    kani::cover!(true);
}
#[kani::proof]
fn enum_stop_ccn_code() {
    let x: u16 = kani::any();
    let r: Result<StopCcnCode, _> = StopCcnCode::try_from(x);
    assert!(r.is_ok() == (x <= 7));
    if let Ok(e) = r {
        let back: u16 = e.into();
        assert!(back == x);
        let expect = match e {
            StopCcnCode::Reserved => 0, StopCcnCode::GeneralRequestToClearControlConnection => 1,
            StopCcnCode::GeneralError => 2, StopCcnCode::ControlChannelAlreadyExists => 3,
            StopCcnCode::RequesterNotAuthorizedToEstablishControlChannel => 4,
            StopCcnCode::RequesterProtocolVersionUnsupported => 5, StopCcnCode::RequesterShutdown => 6,
            StopCcnCode::FsmError => 7,
        };
        assert!(expect == x);
    }
    // CodeValue keeps the raw code and reports convertibility
    let cv = CodeValue::from(x);
    let raw: u16 = cv.into();
    assert!(raw == x);
    assert!(cv.as_stop_ccn().is_ok() == (x <= 7));
    kani::cover!(true);
}
#[kani::proof]
fn enum_cdn_code() {
    let x: u16 = kani::any();
    let r: Result<CdnCode, _> = CdnCode::try_from(x);
    assert!(r.is_ok() == (x <= 11));
    if let Ok(e) = r {
        let back: u16 = e.into();
        assert!(back == x);
        let expect = match e {
            CdnCode::Reserved => 0, CdnCode::CallDisconnectedLossOfCarrier => 1, CdnCode::CallDisconnectedWithErrorCode => 2,
            CdnCode::CallDisconnectedAdministrative => 3, CdnCode::CallFailedTemporarilyUnavailable => 4,
            CdnCode::CallFailedPermanentlyUnavailable => 5, CdnCode::InvalidDestination => 6, CdnCode::CallFailedNoCarrier => 7,
            CdnCode::CallFailedBusySignal => 8, CdnCode::CallFailedNoDialTone => 9, CdnCode::CallEstablishTimeout => 10,
            CdnCode::CallNoFramingDetected => 11,
        };
        assert!(expect == x);
        let cv: CodeValue = e.into();
        let raw: u16 = cv.into();
        assert!(raw == x);
    }
    let cv = CodeValue::from(x);
    assert!(cv.as_cdn().is_ok() == (x <= 11));
    kani::cover!(true);
}
fn rfc_message_type(x: u16) -> Option<MessageType> {
    use MessageType::*;
    Some(match x {
        1 => StartControlConnectionRequest, 2 => StartControlConnectionReply, 3 => StartControlConnectionConnected,
        4 => StopControlConnectionNotification, 6 => Hello, 7 => OutgoingCallRequest, 8 => OutgoingCallReply,
        9 => OutgoingCallConnected, 10 => IncomingCallRequest, 11 => IncomingCallReply, 12 => IncomingCallConnected,
        14 => CallDisconnectNotify, 15 => WanErrorNotify, 16 => SetLinkInfo,
        _ => return None,
    })
}
// MessageType::try_read: all codes x all reader lengths, through the real phf table
#[kani::proof]
fn message_type_try_read() {
    let x: u16 = kani::any();
    let extra: usize = kani::any();
    kani::assume(extra <= 4);
    let b = x.to_be_bytes();
    let buf = [b[0], b[1], 0xaa, 0xbb, 0xcc, 0xdd];
    let mut r = SliceReader::from(&buf[..2 + extra]);
    let res = MessageType::try_read(&mut r);
    match rfc_message_type(x) {
        Some(t) => assert!(res == Ok(t)),
        None => assert!(res == Err(DecodeError::UnknownMessageType(x))),
    }
    assert!(r.len() == extra);
    kani::cover!(true);
}
// MessageType encoder: every named value (reached through its RFC number) encodes to attribute type 0 + that number
#[kani::proof]
fn message_type_write() {
    let x: u16 = kani::any();
    let b = x.to_be_bytes();
    if let Some(t) = rfc_message_type(x) {
        let mut w = VecWriter::new();
        super::WritableAVP::write(&t, &mut w);
        assert!(w.data.len() == 4 && w.data[0] == 0 && w.data[1] == 0 && w.data[2] == b[0] && w.data[3] == b[1]);
        assert!(super::QueryableAVP::get_length(&t) == 2);
    }
    kani::cover!(true);
}
#[kani::proof]
fn message_type_try_read_short() {
    let n: usize = kani::any();
    kani::assume(n < 2);
    let buf = [kani::any::<u8>(); 1];
    let mut r = SliceReader::from(&buf[..n]);
    assert!(MessageType::try_read(&mut r) == Err(DecodeError::IncompleteAVP(0)));
    assert!(r.len() == n);
}
// same function against ANY conforming reader: preconditions of the unchecked calls
#[kani::proof]
fn message_type_try_read_symreader() {
    let mut r = SymReader { rem: kani::any() };
    let n0 = r.rem;
    let res = MessageType::try_read(&mut r);
    assert!(res.is_ok() || res.is_err());
    assert!(if n0 < 2 { r.rem == n0 } else { r.rem == n0 - 2 });
}

// ---- C17: bitmask AVPs -------------------------------------------------------------------------------------
macro_rules! bitmask_harness {
    ($name:ident, $ty:ident, $first:ident, $second:ident, $num:expr) => {
        #[kani::proof]
        fn $name() {
            // constructor -> accessors, all of bool^2
            let (x, y): (bool, bool) = (kani::any(), kani::any());
            let v = $ty::new(x, y);
            assert!(v.$first() == x, "first accessor returns first constructor argument");
            assert!(v.$second() == y, "second accessor returns second constructor argument");
            // wire: all of u32 survive decode -> encode; accessors reflect only their own bit
            let w: u32 = kani::any();
            let b = w.to_be_bytes();
            let mut r = SliceReader::from(&b);
            let d = $ty::try_read(&mut r).unwrap();
            let mut out = VecWriter::new();
            super::WritableAVP::write(&d, &mut out);
            assert!(out.data.len() == 6);
            assert!(out.data[0] == 0 && out.data[1] == $num);
            assert!(out.data[2] == b[0] && out.data[3] == b[1] && out.data[4] == b[2] && out.data[5] == b[3]);
            assert!(d.$first() == ((w >> 6) & 1 == 1));
            assert!(d.$second() == ((w >> 7) & 1 == 1));
            // constructor sets nothing else
            let mut o2 = VecWriter::new();
            super::WritableAVP::write(&v, &mut o2);
            let word = u32::from_be_bytes([o2.data[2], o2.data[3], o2.data[4], o2.data[5]]);
            assert!(word == ((x as u32) << 6) | ((y as u32) << 7));
            kani::cover!(true);
        }
    };
}
bitmask_harness!(bitmask_framing_capabilities, FramingCapabilities, is_async_framing_supported, is_sync_framing_supported, 3);
bitmask_harness!(bitmask_bearer_type, BearerType, is_analog_request, is_digital_request, 18);
bitmask_harness!(bitmask_framing_type, FramingType, is_analog_request, is_digital_request, 19);
// BearerCapabilities::new(digital, analog): parameter order differs, accessor named after each parameter
#[kani::proof]
fn bitmask_bearer_capabilities() {
    let (digital, analog): (bool, bool) = (kani::any(), kani::any());
    let v = BearerCapabilities::new(digital, analog);
    assert!(v.is_digital_access_supported() == digital, "digital accessor returns the digital argument");
    assert!(v.is_analog_access_supported() == analog, "analog accessor returns the analog argument");
    let w: u32 = kani::any();
    let b = w.to_be_bytes();
    let mut r = SliceReader::from(&b);
    let d = BearerCapabilities::try_read(&mut r).unwrap();
    let mut out = VecWriter::new();
    super::WritableAVP::write(&d, &mut out);
    assert!(out.data.len() == 6 && out.data[0] == 0 && out.data[1] == 4);
    assert!(out.data[2] == b[0] && out.data[3] == b[1] && out.data[4] == b[2] && out.data[5] == b[3]);
    assert!(d.is_analog_access_supported() == ((w >> 6) & 1 == 1));
    assert!(d.is_digital_access_supported() == ((w >> 7) & 1 == 1));
    kani::cover!(true);
}

// ---- C18 / C02: SliceReader integer reads, VecWriter integer writes and write_bytes_at ------------------------
// backing length <= 16 (stated bound; the bodies inspect <= 8 octets)
#[kani::proof]
fn slice_reader_ints() {
    let buf: [u8; 16] = kani::any();
    let n: usize = kani::any();
    kani::assume(n <= 16);
    let which: u8 = kani::any();
    let mut r = SliceReader::from(&buf[..n]);
    match which {
        0 => {
            kani::assume(n >= 2);
            let v = unsafe { r.read_u16_be_unchecked() };
            assert!(v == (buf[0] as u16) * 256 + buf[1] as u16);
            assert!(r.len() == n - 2);
            if n > 2 { assert!(unsafe { r.read_u8_unchecked() } == buf[2]); }
        }
        1 => {
            kani::assume(n >= 4);
            let v = unsafe { r.read_u32_be_unchecked() };
            assert!(v == (((buf[0] as u32) * 256 + buf[1] as u32) * 256 + buf[2] as u32) * 256 + buf[3] as u32);
            assert!(r.len() == n - 4);
            if n > 4 { assert!(unsafe { r.read_u8_unchecked() } == buf[4]); }
        }
        _ => {
            kani::assume(n >= 8);
            let v = unsafe { r.read_u64_be_unchecked() };
            let mut e: u64 = 0;
            let mut i = 0;
            while i < 8 { e = e * 256 + buf[i] as u64; i += 1; }
            assert!(v == e);
            assert!(r.len() == n - 8);
            if n > 8 { assert!(unsafe { r.read_u8_unchecked() } == buf[8]); }
        }
    }
    kani::cover!(true);
}
macro_rules! vec_writer_int_harness {
    ($name:ident, $ty:ty, $method:ident, $n:expr) => {
        #[kani::proof]
        #[kani::unwind(10)]
        fn $name() {
            let pre: [u8; 3] = kani::any();
            let k: usize = kani::any();
            kani::assume(k <= 3);
            let mut w = VecWriter::new();
            assert!(w.data.len() == 0 && w.is_empty());
            w.write_bytes(&pre[..k]);
            let a: $ty = kani::any();
            w.$method(a);
            assert!(w.data.len() == k + $n && w.len() == k + $n && !w.is_empty());
            let d = &w.data;
            let mut e: u64 = 0;
            let mut i = 0;
            while i < $n { e = e * 256 + d[k + i] as u64; i += 1; }
            assert!(e == a as u64);
            let mut j = 0;
            while j < k { assert!(d[j] == pre[j]); j += 1; }
            kani::cover!(true);
        }
    };
}
vec_writer_int_harness!(vec_writer_u8, u8, write_u8, 1);
vec_writer_int_harness!(vec_writer_u16, u16, write_u16_be, 2);
vec_writer_int_harness!(vec_writer_u32, u32, write_u32_be, 4);
vec_writer_int_harness!(vec_writer_u64, u64, write_u64_be, 8);
#[kani::proof]
#[kani::unwind(18)]
fn vec_writer_write_bytes_at() {
    let init: [u8; 16] = kani::any();
    let n: usize = kani::any();
    kani::assume(n <= 16);
    let patch: [u8; 4] = kani::any();
    let m: usize = kani::any();
    kani::assume(m <= 4);
    let off: usize = kani::any();
    kani::assume(off <= 20);
    kani::assume(off + m <= n);
    let mut w = VecWriter::new();
    w.write_bytes(&init[..n]);
    w.write_bytes_at(&patch[..m], off);
    assert!(w.data.len() == n);
    let mut i = 0;
    while i < n {
        if i >= off && i < off + m { assert!(w.data[i] == patch[i - off]); } else { assert!(w.data[i] == init[i]); }
        i += 1;
    }
    kani::cover!(true);
}
#[kani::proof]
#[kani::unwind(18)]
#[kani::should_panic]
fn vec_writer_write_bytes_at_refuses_outside() {
    let init: [u8; 16] = kani::any();
    let n: usize = kani::any();
    kani::assume(n <= 16);
    let patch: [u8; 4] = kani::any();
    let m: usize = kani::any();
    kani::assume(m <= 4);
    let off: usize = kani::any();
    kani::assume(off <= 1 << 40);
    kani::assume(off + m > n);
    let mut w = VecWriter::new();
    w.write_bytes(&init[..n]);
    w.write_bytes_at(&patch[..m], off);
    kani::cover!(true, "vf-returned"); // must be unreachable: `should_panic` alone is existential (kani_run.py checks this)
}

// ---- Accm::try_read (closure capturing &mut reader) ----------------------------------------------------------
#[kani::proof]
#[kani::unwind(18)]
fn accm_try_read_symreader() {
    let mut r = SymReader { rem: kani::any() };
    let n0 = r.rem;
    let res = Accm::try_read(&mut r);
    if n0 < 10 {
        assert!(res == Err(DecodeError::IncompleteAVP(35)));
        assert!(r.rem == n0);
    } else {
        assert!(res.is_ok());
        assert!(r.rem == n0 - 10);
    }
}
#[kani::proof]
#[kani::unwind(18)]
fn accm_try_read_values() {
    let buf: [u8; 12] = kani::any();
    let n: usize = kani::any();
    kani::assume(n >= 10 && n <= 12);
    let mut r = SliceReader::from(&buf[..n]);
    let a = Accm::try_read(&mut r).unwrap();
    assert!(a.send_accm == [buf[2], buf[3], buf[4], buf[5]]);
    assert!(a.receive_accm == [buf[6], buf[7], buf[8], buf[9]]);
    assert!(r.len() == n - 10);
    let mut w = VecWriter::new();
    super::WritableAVP::write(&a, &mut w);
    assert!(w.data.len() == 12 && w.data[0] == 0 && w.data[1] == 35 && w.data[2] == 0 && w.data[3] == 0);
    assert!(w.data[4..8] == buf[2..6] && w.data[8..12] == buf[6..10]);
    kani::cover!(true);
}

// ---- D7 ---------------------------------------------------------------------------------------------------------
const _: () = { assert!(AVP::MAX_LENGTH == 1023); };
const _: () = { assert!(Header::LENGTH == 6); };

// ---- C20: avp_name agrees with the RFC 2661 attribute table for the 39 assigned numbers ------------------------
fn rfc_avp_name(n: u16) -> Option<&'static str> {
    Some(match n {
        0 => "MessageType", 1 => "ResultCode", 2 => "ProtocolVersion", 3 => "FramingCapabilities", 4 => "BearerCapabilities",
        5 => "TieBreaker", 6 => "FirmwareRevision", 7 => "HostName", 8 => "VendorName", 9 => "AssignedTunnelId",
        10 => "ReceiveWindowSize", 11 => "Challenge", 12 => "Q931CauseCode", 13 => "ChallengeResponse",
        14 => "AssignedSessionId", 15 => "CallSerialNumber", 16 => "MinimumBps", 17 => "MaximumBps", 18 => "BearerType",
        19 => "FramingType", 21 => "CalledNumber", 22 => "CallingNumber", 23 => "SubAddress", 24 => "TxConnectSpeed",
        25 => "PhysicalChannelId", 26 => "InitialReceivedLcpConfReq", 27 => "LastSentLcpConfReq",
        28 => "LastReceivedLcpConfReq", 29 => "ProxyAuthenType", 30 => "ProxyAuthenName", 31 => "ProxyAuthenChallenge",
        32 => "ProxyAuthenId", 33 => "ProxyAuthenResponse", 34 => "CallErrors", 35 => "Accm", 36 => "RandomVector",
        37 => "PrivateGroupId", 38 => "RxConnectSpeed", 39 => "SequencingRequired",
        _ => return None,
    })
}

// ---- discharge of the prelude's assumed wrapper contracts (R2) against std, full domain ---------------------------
#[kani::proof]
fn std_be_bytes() {
    let a: u16 = kani::any();
    let b = a.to_be_bytes();
    assert!(b[0] as u16 == (a / 256) % 256 && b[1] as u16 == a % 256);
    assert!(u16::from_be_bytes(b) == a);
    let c: u32 = kani::any();
    let d = c.to_be_bytes();
    assert!(d[0] as u32 == (c / 16777216) % 256 && d[1] as u32 == (c / 65536) % 256 && d[2] as u32 == (c / 256) % 256 && d[3] as u32 == c % 256);
    assert!(u32::from_be_bytes(d) == c);
    let e: u64 = kani::any();
    let f = e.to_be_bytes();
    let hi = (e / 4294967296) as u32;
    let lo = (e % 4294967296) as u32;
    assert!(f[0..4] == hi.to_be_bytes() && f[4..8] == lo.to_be_bytes());
    assert!(u64::from_be_bytes(f) == e);
    kani::cover!(true);
}
#[kani::proof]
#[kani::unwind(10)]
fn std_slice_to_array() {
    let buf: [u8; 8] = kani::any();
    let n: usize = kani::any();
    kani::assume(n <= 8);
    let r: Result<[u8; 4], _> = buf[..n].try_into();
    assert!(r.is_ok() == (n == 4));
    if let Ok(a) = r {
        assert!(a[0] == buf[0] && a[1] == buf[1] && a[2] == buf[2] && a[3] == buf[3]);
    }
    let r2: Result<[u8; 2], _> = buf[..n].try_into();
    assert!(r2.is_ok() == (n == 2));
    kani::cover!(true);
}

// ---- R6: std semantics of `iter().any(f)` and `into_iter().filter_map(f).collect()` against loops (bounded) -------
#[kani::proof]
#[kani::unwind(5)]
fn std_filter_map_any_bounded() {
    let n: usize = kani::any();
    kani::assume(n <= 3);
    let mut v: Vec<Result<u8, u8>> = Vec::new();
    let mut i = 0;
    while i < n {
        let x: u8 = kani::any();
        if kani::any() { v.push(Ok(x)); } else { v.push(Err(x)); }
        i += 1;
    }
    // reference: plain loops
    let mut any_err = false;
    let mut oks: Vec<u8> = Vec::new();
    let mut errs: Vec<u8> = Vec::new();
    let mut k = 0;
    while k < n {
        match v[k] { Ok(a) => oks.push(a), Err(e) => { any_err = true; errs.push(e); } }
        k += 1;
    }
    assert!(v.iter().any(|x| x.is_err()) == any_err);
    let got_err: Vec<u8> = v.clone().into_iter().filter_map(|x| x.err()).collect();
    let got_ok: Vec<u8> = v.into_iter().filter_map(|x| x.ok()).collect();
    assert!(got_err == errs);
    assert!(got_ok == oks);
    kani::cover!(true);
}
