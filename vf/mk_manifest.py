#!/usr/bin/env python3
"""Writes /verif/MANIFEST.json from the table below."""
import json, os, subprocess
VERIF = os.path.dirname(os.path.dirname(os.path.abspath(__file__)))

LEVEL = {
 'C01': ('Unbounded deductive proof (Verus) that every decode-path function of the real crate, for an arbitrary conforming reader and arbitrary remaining octets, has no arithmetic overflow, out-of-range index/slice, unmet callee precondition or reachable panic, and that the AVP loop terminates; result-shape clauses (non-empty error list). Kani (complete, SymReader) for the two decoders left outside Verus.', 'DESIGN.md 3 C01'),
 'C02': ('Reader-trait preconditions (the crate\'s informal "caller has checked len") are proof obligations at every call site in generic code, for every reader type; SliceReader is proved to meet the contract. Unbounded (Verus); SliceReader integer reads by Kani (bounded backing length 16).', 'DESIGN.md 3 C02'),
 'C03': ('Per-kind encoder `bytes` and decoder `on_image` clauses, AVP framing, list and control-message clauses proved against the RFC 2661 specification library; composed by machine-checked spec-level round-trip lemmas.', 'DESIGN.md 3 C03'),
 'C04': ('DataMessage::{write,try_read} proved equal to spec_enc_data / spec_data; flag word by Kani over all words; spec-level round-trip lemma.', 'DESIGN.md 3 C04'),
 'C05': ('`equiv` clauses (accept iff, value equality, consumed position) of every decoder from Flags::read up to Message::try_read_validate against the independent specification; unbounded in input length and AVP count.', 'DESIGN.md 3 C05'),
 'C06': ('`bytes` clause of every encoder against spec_enc_*, arbitrary writer and prefix, including the ControlMessage::write loop (unbounded).', 'DESIGN.md 3 C06'),
 'C07': ('Length clauses under the guard reading of assert!: get_length == |payload|, 10-bit AVP length exact and <= 1023, control Length exact and <= 65535; removing or weakening an assert fails the clause.', 'DESIGN.md 3 C07'),
 'C08': ('`consumed` clauses (reader position after decode) and sub-reader isolation proved for every reader; suffix/concatenation lemmas and the back-to-back decoding theorem for message sequences over the specification.', 'DESIGN.md 3 C08'),
 'C09': ('Every encoder proved `out == old(out) ++ spec_enc(v)` for arbitrary old(out); write_bytes_at call sites proved to lie inside the value being encoded; VecWriter primitives by Verus/Kani; concatenation theorem for message sequences over the specification.', 'DESIGN.md 3 C09'),
 'C10': ('Spec-level fixed-point lemma (decoded values are encodable; decode(encode(m)) == m up to Length; second encode identical), linked to the code by the C05 equiv and C06 bytes clauses.', 'DESIGN.md 3 C10'),
 'C11': ('hide/reveal proved against the RFC 4.3 construction with MD5 uninterpreted, unbounded in block count; spec-level inversion lemma decrypt(encrypt(p)) == p and reveal(hide(a)) == a.', 'DESIGN.md 3 C11'),
 'C12': ('The real hide body proved to produce encrypt(plain(...)) as RFC 2661 4.3 defines it, for any 16-octet hash; reveal proved equal to spec_reveal; H bit set by AVP::write for Hidden.', 'DESIGN.md 3 C12'),
 'C13': ('reveal proved total on arbitrary type/value/secret/random vector: no panic, every SliceReader precondition met, rejection clauses, result kind equals announced type.', 'DESIGN.md 3 C13'),
 'C14': ('Flag-word getters against arithmetic predicates by Kani over all 65 536 words; Message::try_read_validate/try_read proved equal to spec_message(b, opts); monotonicity and independence lemmas over spec_message.', 'DESIGN.md 3 C14'),
 'C15': ('try_read_greedy proved element-wise equal to spec_avp_list (unbounded); ControlMessage::try_read tail proved against spec_tail_ok / recs_errors: all-or-nothing, ordered, complete error list.', 'DESIGN.md 3 C15'),
 'C16': ('Kani, complete over all 65 536 values per enumerated field on the real macro-generated code (num_enum, phf); decode_avp dispatch clause and encoder attribute numbers by Verus.', 'DESIGN.md 3 C16'),
 'C17': ('Kani, complete: bool^2 for constructor->accessor, all of u32 for decode->encode and accessor bits, four kinds.', 'DESIGN.md 3 C17'),
 'C18': ('Each SliceReader / VecWriter method proved to meet the Reader / Writer contract, which is the reference-model transition (forward simulation per operation); integer reads/writes and write_bytes_at by Kani.', 'DESIGN.md 3 C18'),
 'C19': ('Closed world: Verus rejects a call to any function without a contract (std::io, statics, interior mutability) on every verified path; syntactic frame scan of the external_body functions and of the whole tree for forbidden paths; results are functions of arguments by the equiv/bytes clauses. Thread schedules are not explored (frame argument).', 'DESIGN.md 3 C19'),
 'C20': ('err_id clauses (Verus) for every error the property names; avp_name table against the RFC names by Kani for the 39 assigned numbers; rendering checked bounded.', 'DESIGN.md 3 C20'),
}
TECH = {p: 'contract-based deductive verification: Verus on the mechanically generated crate image' for p in LEVEL}
for p in ('C14', 'C16', 'C18', 'C01', 'C02', 'C04', 'C06', 'C20'):
    TECH[p] += ' + Kani complete harnesses on the real crate'
TECH['C17'] = 'contract-style Kani harnesses, loop-free over the full domain (complete), on the real crate'
TECH['C19'] = 'Verus closed-world rejection + generator frame scan (syntactic) + functional postconditions'

NOTE = ('Trusted: rustc, Verus/Z3, Kani/CBMC, generator rules R1-R12/D2-D8; assumed std contracts and axioms listed in the evidence file '
        '(from_utf8, String::as_bytes/len, to_owned, get_unchecked, unwrap_unchecked, R2/R6 wrappers, Vec len <= isize::MAX); md5::compute is a function '
        'of its input returning 16 octets; external_body functions carry contracts discharged by Kani where a harness is listed, bounded where stated.')

def main(claimed, na):
    checks = []
    for p in claimed:
        checks.append({
            'property_id': p,
            'quick_cmd': './check %s --tier quick' % p,
            'thorough_cmd': './check %s --tier thorough' % p,
            'evidence_file': '/verif/evidence/%s.json' % p,
            'replay_cmd_template': './check --replay {path}',
            'engine': 'verus+kani',
            'level_claimed': {'category': 'proof', 'text': LEVEL[p][0], 'design_ref': LEVEL[p][1]},
            'level_note': NOTE,
            'technique': TECH[p],
        })
    fixes = subprocess.run(['git', '-C', '/repo', 'log', '--format=%h %s'], capture_output=True, text=True).stdout.strip().split('\n')
    fixes = [l.split()[0] for l in fixes if ' fix:' in ' ' + l]
    m = {
        'version': 1,
        'setup_cmd': 'cd /verif/vf/replay && (CARGO_NET_OFFLINE=true cargo build --offline -q || true)',
        'hooks': {'guard': 'kani', 'enable': 'no hooks in /repo: Verus reads a crate image generated from /repo/src on every run; Kani compiles a scratch copy of /repo to which `#[cfg(kani)] mod vf_kani;` is appended (cfg(kani) is set only by cargo-kani)',
                  'baseline_off_cmd': 'cd /repo && cargo test --workspace --no-fail-fast --offline', 'source_commits': fixes[::-1], 'add_only': True},
        'engines': [
            {'name': 'verus', 'path': '/verif/vf/gen.py + /verif/vf/run.py', 'serves_properties': claimed, 'kind_free_text': 'Verus 0.2026.09.13 single-file mode on the generated crate image (contracts in vf/contracts/*.vfc and vf/spec_table.py)'},
            {'name': 'kani', 'path': '/verif/vf/kani/vf_kani.rs + /verif/vf/kani_run.py', 'serves_properties': [p for p in claimed if 'Kani' in TECH[p]], 'kind_free_text': 'Kani 0.68 harnesses (loop-free/full-domain = complete; bounded ones labelled) on a scratch copy of the real crate'},
        ],
        'checks': checks,
        'notes': 'Exit 2 = INCONCLUSIVE (lost anchor, spliced annotation no longer type-checks, resource limit): never an alarm. known_findings.txt lists repaired defects.',
        'not_applicable': [{'property_id': p, 'reason': r} for p, r in na],
    }
    json.dump(m, open(os.path.join(VERIF, 'MANIFEST.json'), 'w'), indent=1)

if __name__ == '__main__':
    import sys
    allp = ['C%02d' % i for i in range(1, 21)]
    na = [(p, 'check under construction in this session') for p in sys.argv[1:]]
    main([p for p in allp if p not in sys.argv[1:]], na)
