#!/usr/bin/env python3
"""Runs every registered check against behaviour-preserving refactorings delivered by sub-agents (scratch copies of
/repo via VF_REPO; /repo itself is not touched) and records the outcome under /verif/refactors/<id>/."""
import json, os, re, shutil, subprocess, sys, time
os.environ['VF_EVIDENCE_DIR'] = '/tmp/vf_evidence_scratch'   # never overwrite the committed evidence from a changed tree
VERIF = os.path.dirname(os.path.dirname(os.path.abspath(__file__)))


def sh(cmd, cwd=None, env=None, timeout=6000):
    p = subprocess.run(cmd, cwd=cwd, capture_output=True, text=True, env=env, timeout=timeout, shell=isinstance(cmd, str))
    return p.returncode, p.stdout + p.stderr


def main():
    ids = sys.argv[1:]
    for spec in ids:
        ident, patch = spec.split('=', 1)
        scratch = '/tmp/vf_refactor_repo'
        shutil.rmtree(scratch, ignore_errors=True)
        os.makedirs(scratch)
        sh('git -C /repo archive HEAD | tar -x -C %s' % scratch)
        rc, out = sh(['patch', '-p1', '-s', '-i', patch], cwd=scratch)
        if rc != 0:
            print('%s: patch does not apply: %s' % (ident, out[-200:]))
            continue
        env = dict(os.environ, CARGO_NET_OFFLINE='true')
        rc, out = sh('cargo test --offline 2>&1 | grep "test result"', cwd=scratch, env=env)
        suite_ok = 'FAILED' not in out and '98 passed' in out
        shutil.rmtree(os.path.join(scratch, 'target'), ignore_errors=True)
        t = time.time()
        env = dict(os.environ, VF_REPO=scratch)
        rc, out = sh([os.path.join(VERIF, 'check'), '--all'], cwd=VERIF, env=env)
        alarms = sorted(set(re.findall(r'^VIOLATION property=(C\d\d)', out, flags=re.M)))
        inc = sorted(set(re.findall(r'^INCONCLUSIVE: property=(C\d\d)', out, flags=re.M)))
        if 'INCONCLUSIVE: generator' in out:
            inc = ['ALL(generator)']
        dest = os.path.join(VERIF, 'refactors', ident)
        os.makedirs(dest, exist_ok=True)
        shutil.copy(patch, os.path.join(dest, 'patch.diff'))
        md = patch[:-5] + '.md'
        if os.path.exists(md):
            shutil.copy(md, os.path.join(dest, 'README.md'))
        json.dump({'id': ident, 'suite_passes': suite_ok, 'alarms': alarms, 'inconclusive': inc, 'wall_s': round(time.time() - t),
                   'what_was_run': 'git archive HEAD -> scratch; patch -p1; cargo test --offline; VF_REPO=scratch ./check --all'},
                  open(os.path.join(dest, 'meta.json'), 'w'), indent=1)
        open(os.path.join(dest, 'check_output.txt'), 'w').write(out[-12000:])
        print('%s: suite=%s alarms=%s inconclusive=%s (%ds)' % (ident, suite_ok, alarms, inc, time.time() - t))
        shutil.rmtree(scratch, ignore_errors=True)


if __name__ == '__main__':
    main()
