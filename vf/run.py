#!/usr/bin/env python3
"""Runner: decides one property (DESIGN.md §2.5-§2.7, §2.9).

  generate image from /repo's working tree  ->  Verus (proof image) + Verus (canary image)
  -> Kani harnesses of the property on a scratch copy of /repo  ->  verdict, replay files, evidence.

Exit 0: every obligation of the property discharged (KNOWN-FINDING lines printed for listed findings).
Exit 1: a line `VIOLATION property=<id> replay=<path>[ no-failing-input-found]`.
Exit 2: INCONCLUSIVE (lost anchor, annotation no longer type-checks, resource limit) - never an alarm.
"""
import json
import os
import re
import shutil
import subprocess
import sys
import time
import concurrent.futures as cf

HERE = os.path.dirname(os.path.abspath(__file__))
VERIF = os.path.dirname(HERE)
sys.path.insert(0, HERE)
import gen  # noqa: E402
import rustscan  # noqa: E402
import kani_run  # noqa: E402
import witness  # noqa: E402

REPO = os.environ.get('VF_REPO', '/repo')
ALL_PROPS = ['C%02d' % i for i in range(1, 21)]
# registered commands write /verif/evidence; campaign scripts (seeded / refactor / self-test runs on changed trees) redirect it
EVIDENCE_DIR = os.environ.get('VF_EVIDENCE_DIR', os.path.join(VERIF, 'evidence'))

# default attribution of a failure that does not hit a labelled clause (overflow, index, callee precondition
# from vstd, unreachable panic, termination) inside a function without an explicit @safety line
DEFAULT_SAFETY = [
    (r'::reveal$', {'props': ['C13'], 'secondary': ['C01', 'C02']}),
    (r'::hide$', {'props': ['C12'], 'secondary': ['C07']}),
    (r'(::try_read\w*|::decode_avp|::read)$', {'props': ['C01'], 'secondary': []}),
    # an unlabelled failure in an encoder (a changed or added assert!, an index) may be position-dependent (C09),
    # size-dependent (C07) or a plain in-domain panic (C06/C03): decided by a concrete witness
    (r'(::write|::make_flags_and_length)$', {'props': [], 'secondary': ['C06', 'C07', 'C09', 'C03', 'C04']}),
    (r'(::get_length)$', {'props': ['C07'], 'secondary': ['C06']}),
]

C19_FORBIDDEN = re.compile(r'std::io::(stdout|stderr|stdin|Stdout|Stderr|Stdin|stdio)|std::fs|std::env|std::process|std::net|std::time|std::thread|std::sync|'
                           r'core::sync|core::cell|std::cell|static mut|interior mutab|_print|_eprint|std::os')


C19_PURE_STD = re.compile(r'(std|core|alloc)::(option|result|slice|vec|iter|str|string|cmp|convert|ops|num|mem|clone|default|borrow|array|fmt|boxed|marker|primitive|char|u8|u16|u32|u64|usize)\b')


def sh(cmd, cwd=None, timeout=None, env=None):
    t0 = time.time()
    p = subprocess.run(cmd, cwd=cwd, capture_output=True, text=True, timeout=timeout, env=env)
    return p.returncode, p.stdout, p.stderr, time.time() - t0


def run_verus(image_path, workdir, seed=None, threads=None):
    cmd = ['verus', os.path.basename(image_path), '--triggers-mode', 'silent', '--output-json', '--time',
           '--error-format=json', '--multiple-errors', '24', '--no-report-long-running', '-V', 'spinoff-all', '--rlimit', '50']
    if seed is not None:
        cmd += ['--smt-option', 'smt.random_seed=%d' % seed]
    if threads:
        cmd += ['--num-threads', str(threads)]
    rc, out, err, dt = sh(cmd, cwd=workdir, timeout=3000)
    diags = []
    other = []
    for ln in err.split('\n'):
        ln = ln.strip()
        if ln.startswith('{'):
            try:
                diags.append(json.loads(ln))
                continue
            except ValueError:
                pass
        if ln:
            other.append(ln)
    js = None
    try:
        i = out.index('{')
        js = json.loads(out[i:])
    except ValueError:
        pass
    return {'rc': rc, 'json': js, 'diags': diags, 'stderr_other': other, 'wall': dt, 'cmd': ' '.join(cmd), 'stdout': out}


class ImageResult:
    pass


def fn_at(maps, line):
    best = None
    for a, b, name, bodyline in maps['fn_ranges']:
        if a <= line <= b:
            if best is None or (b - a) < (best[1] - best[0]):
                best = (a, b, name, bodyline)
    return best


def key_of_fn_range(maps, rng, image_lines):
    return rng[2]


def classify(vr, maps, image_lines, fnkeys_by_line):
    """Returns list of failures: dict(kind, message, labels[], fn, props, lines, rendered)."""
    fails = []
    fatal = []
    for d in vr['diags']:
        if d.get('level') != 'error':
            continue
        msg = d.get('message', '')
        if msg.startswith('aborting due to'):
            continue
        spans = d.get('spans', [])
        lines = sorted({ln for s in spans if s.get('file_name', '').endswith('image.rs')
                        for ln in range(s['line_start'], s['line_end'] + 1)})
        labels = []
        for ln in lines:
            if ln in maps['linemap']:
                li = maps['linemap'][ln]
                if li not in labels:
                    labels.append(li)
        primary = [s for s in spans if s.get('is_primary') and s.get('file_name', '').endswith('image.rs')]
        anyspan = [s for s in spans if s.get('file_name', '').endswith('image.rs')]
        fnk = None
        # the function whose body contains a non-clause span (exit / call site); fall back to primary
        if 'precondition' in msg.lower():
            # the failing function is the one containing the CALL SITE (primary span), even when that line is a labelled
            # proof line; the other span is the callee's `requires` clause
            cand = [s['line_start'] for s in primary] + [s['line_start'] for s in anyspan if s['line_start'] not in maps['linemap']]
        else:
            secondary_spans = [s for s in anyspan if not s.get('is_primary')]
            cand = ([s['line_start'] for s in secondary_spans if s['line_start'] not in maps['linemap']]
                    + [s['line_start'] for s in primary if s['line_start'] not in maps['linemap']]
                    + [s['line_start'] for s in anyspan if s['line_start'] not in maps['linemap']] + [s['line_start'] for s in primary])
        for ln in cand:
            k = fnkeys_by_line(ln)
            if k:
                fnk = k
                break
        kind = 'verification'
        low = msg.lower()
        if 'rlimit' in low or 'resource limit' in low or 'timed out' in low or 'timeout' in low:
            kind = 'rlimit'
        elif ('not supported' in low or 'unsupported' in low or 'does not support' in low or d.get('code')
              or 'cannot find' in low or 'mismatched types' in low or 'expected' in low and 'found' in low):
            kind = 'frontend'
        fails.append({'kind': kind, 'message': msg, 'labels': labels, 'fn': fnk, 'lines': lines,
                      'rendered': d.get('rendered', '')})
    return fails


def build_fnkey_lookup(image_text, maps):
    """Map a generated line to the key (module path + item) of the function containing it."""
    # module stack by scanning `mod x {` / `} // mod x` markers emitted by the generator
    lines = image_text.split('\n')
    modstack = []
    mod_at = []
    for ln in lines:
        m = re.match(r'^(?:pub(?:\([a-z]+\))?\s+)?mod\s+([a-z_0-9]+)\s*\{\s*$', ln)
        if m:
            modstack.append(m.group(1))
        elif re.match(r'^\} // mod ', ln):
            if modstack:
                modstack.pop()
        mod_at.append('::'.join(modstack))
    ranges = sorted(maps['fn_ranges'], key=lambda r: (r[0], -r[1]))
    keys = maps['fn_index']

    def norm_last(k):
        return k.split('::')[-1]

    def lookup(line):
        best = None
        for a, b, name, bodyline in ranges:
            if a <= line <= b and (best is None or (b - a) < (best[1] - best[0])):
                best = (a, b, name, bodyline)
        if not best:
            return None
        mp = mod_at[best[0] - 1] if best[0] - 1 < len(mod_at) else ''
        cands = [k for k in keys if norm_last(k) == best[2] and (k.startswith(mp + '::') or (mp == '' and '::' not in k.replace('::' + best[2], '')))]
        if len(cands) == 1:
            return cands[0]
        if len(cands) > 1:
            # disambiguate by impl header preceding the function in the image
            hdr = None
            for j in range(best[0] - 1, 0, -1):
                mm = re.match(r'^\s*(?:unsafe\s+)?impl\b(.*)\{\s*(//.*)?$', lines[j - 1])
                if mm and not lines[j - 1].startswith('        '):
                    hdr = 'impl' + mm.group(1)
                    break
                mm = re.match(r'^\s*(?:pub(?:\([a-z]+\))?\s+)?trait\s+(\w+)', lines[j - 1])
                if mm:
                    hdr = 'trait ' + mm.group(1)
                    break
            if hdr:
                if hdr.startswith('trait '):
                    want = '%s::%s' % (hdr[6:], best[2])
                    c2 = [k for k in cands if k.endswith('::' + want) or k == want]
                else:
                    ty, tr = rustscan.parse_impl_header(hdr)
                    want = ('<%s as %s>::%s' % (ty, tr, best[2])) if tr else ('%s::%s' % (ty, best[2]))
                    c2 = [k for k in cands if k.endswith('::' + want) or k == want]
                if len(c2) == 1:
                    return c2[0]
            return cands[0]
        return (mp + '::' if mp else '') + best[2]
    return lookup


NEW_FN_CALLERS = {}


def default_safety(fnkey, contracts, _depth=0):
    """{'props': primaries, 'secondary': [...]} for a failure in `fnkey` that hits no labelled clause.  A function that
    is new in this tree inherits the roles of the functions that call it."""
    c = contracts.get(fnkey)
    if c and c.get('safety'):
        return c['safety']
    for pat, props in DEFAULT_SAFETY:
        if re.search(pat, fnkey or ''):
            return props
    if fnkey in NEW_FN_CALLERS and _depth < 3:
        prim, sec = [], []
        for caller in NEW_FN_CALLERS[fnkey]:
            r = default_safety(caller, contracts, _depth + 1)
            prim += [p for p in r['props'] if p not in prim]
            sec += [p for p in r['secondary'] if p not in sec]
        return {'props': prim, 'secondary': [p for p in sec if p not in prim]}
    return {'props': [], 'secondary': []}


def role_of(p, lab):
    if p in lab.get('props', []):
        return 'primary'
    if p in lab.get('secondary', []):
        return 'secondary'
    return None


def scan_assumptions(image_text):
    out = []
    lines = image_text.split('\n')
    for i, ln in enumerate(lines):
        s = ln.strip()
        if 'assume_specification' in s and not s.startswith('//'):
            m = re.search(r'assume_specification\s*(?:<.*?>\s*)?\[\s*(.*?)\s*\]\s*\(', s)
            out.append('assume_specification %s' % (m.group(1).strip() if m else s[:80]))
        elif re.search(r'\baxiom fn\b', s):
            m = re.search(r'axiom fn (\w+)', s)
            out.append('axiom %s' % m.group(1))
        elif re.search(r'\b(assume|admit)\s*\(', s) and not s.startswith('//'):
            out.append('assume/admit at image line %d: %s' % (i + 1, s[:80]))
        elif 'uninterp spec fn' in s:
            m = re.search(r'uninterp spec fn (\w+)', s)
            out.append('uninterpreted %s' % m.group(1))
    # wrappers of the prelude / stand-ins whose bodies are trusted (R2, R3, R6, R11, D3, D6): external_body with a contract
    end = image_text.find('} // mod vf_prelude')
    pre_lines = image_text[:end].split('\n') if end > 0 else []
    for i, ln in enumerate(pre_lines):
        if 'verifier::external_body' in ln and 'external_type_specification' not in ln:
            for j in range(i, min(i + 6, len(pre_lines))):
                m = re.search(r'\bfn\s+(\w+)', pre_lines[j])
                if m:
                    out.append('prelude wrapper (external_body, contract assumed) %s' % m.group(1))
                    break
    for m in re.finditer(r'#\[verifier::external_body\]\s*(?:pub(?:\([a-z]+\))?\s+)?const\s+(\w+)', image_text):
        out.append('opaque const (R12) %s' % m.group(1))
    for m in re.finditer(r'#\[verifier::external\]\s*impl\b([^{;]*)\{', image_text):
        out.append('impl outside the verified text (R13): impl%s' % re.sub(r'\s+', ' ', m.group(1)).rstrip())
    return sorted(set(out))


def external_body_fns(image_text, lookup):
    res = []
    lines = image_text.split('\n')
    for i, ln in enumerate(lines):
        if 'verifier::external_body' in ln and 'external_type_specification' not in ln:
            for j in range(i, min(i + 6, len(lines))):
                m = re.search(r'\bfn\s+(\w+)', lines[j])
                if m:
                    k = lookup(j + 1) or m.group(1)
                    res.append(k)
                    break
    return sorted(set(res))


FRAME_FORBIDDEN = re.compile(
    r'\b(print|println|eprint|eprintln|dbg|thread_local|lazy_static)\s*!|\bstatic\s+mut\b|\bstd::(fs|env|process|net|time|thread|sync|cell|os)\b|\b(stdout|stderr|stdin)\s*\(|\b(File|OpenOptions|TcpStream|UdpSocket|UnixStream)\b|'
    r'\bcore::(sync|cell)\b|\b(io::(stdout|stderr|stdin)|Stdout|Stderr)\b|\b(Cell|RefCell|UnsafeCell|OnceCell|OnceLock|LazyLock|LazyCell|Mutex|RwLock|Condvar|Lazy)\b|'
    r'\bAtomic[A-Z]\w*\b|\b(SystemTime|Instant)\b|\b(rand|getrandom|once_cell|libc)::|\bextern\s+"C"|\basm!|'
    r'\b(RandomState|DefaultHasher|BuildHasher|HashMap|HashSet|hash_map|thread_rng|ThreadId|current_thread|available_parallelism)\b|'
    r'\bstd::(collections::hash|hash::|ptr::(read|write)_volatile|alloc::)|\baddr_of|\bas\s+\*const\b.*\bas\s+usize')
STATIC_ALLOWED = {'MESSAGE_CODE_TO_TYPE'}


def frame_scan(repo):
    """Syntactic frame check (C19) over the non-test sources of the working tree: no output, clock, environment,
    file, thread or shared-state construct, and no static item other than the immutable phf table."""
    hits = []
    files = 0
    src = os.path.join(repo, 'src')
    # the files of the crate that are compiled outside `cfg(test)`: walk the `mod x;` declarations from lib.rs and do not
    # follow those under `#[cfg(test)]` (a test-only module may use threads, clocks, output: it is not a codec path)
    compiled = set()

    def walk(path):
        if path in compiled or not os.path.exists(path):
            return
        compiled.add(path)
        b0, _ = rustscan.blank(open(path).read())
        me = os.path.splitext(os.path.basename(path))[0]
        dirpath = os.path.dirname(path)
        subdir = dirpath if me in ('lib', 'mod', 'main') else os.path.join(dirpath, me)
        for m in re.finditer(r'(?m)^([ \t]*(?:#\[[^\]]*\]\s*)*)(?:pub(?:\([a-z]+\))?\s+)?mod\s+([A-Za-z_0-9]+)\s*;', b0):
            if re.search(r'cfg\s*\(\s*test\s*\)', m.group(1)):
                continue
            for cand in (os.path.join(subdir, m.group(2) + '.rs'), os.path.join(subdir, m.group(2), 'mod.rs')):
                if os.path.exists(cand):
                    walk(cand)
    walk(os.path.join(src, 'lib.rs'))
    for root, dirs, fs in os.walk(src):
        for fn in sorted(fs):
            if not fn.endswith('.rs'):
                continue
            path = os.path.join(root, fn)
            rel = os.path.relpath(path, repo)
            if fn == 'tests.rs' or '/tests/' in '/' + rel:
                continue
            if compiled and path not in compiled:
                continue
            files += 1
            text = open(path).read()
            b, _ = rustscan.blank(text)
            # drop #[cfg(test)] mod x { .. } blocks
            for m in re.finditer(r'#\[cfg\(test\)\]\s*(pub\s+)?mod\s+\w+\s*\{', b):
                o = m.end() - 1
                c = rustscan.match_bracket(b, o)
                b = b[:m.start()] + re.sub(r'[^\n]', ' ', b[m.start():c + 1]) + b[c + 1:]
            for m in FRAME_FORBIDDEN.finditer(b):
                ln = b.count('\n', 0, m.start()) + 1
                hits.append({'file': rel, 'line': ln, 'what': m.group(0).strip(), 'text': text.split('\n')[ln - 1].strip()[:160]})
            # an immutable `static` of a plain type is a constant table (no shared state); `static mut` and interior
            # mutability are caught by the token list above
    return files, hits


def load_known_findings():
    p = os.path.join(VERIF, 'known_findings.txt')
    res = []
    if os.path.exists(p):
        for ln in open(p):
            ln = ln.strip()
            m = re.match(r'known:\s*property=(C\d\d)\s+match=(\S+)\s+(.*)$', ln)
            if m:
                res.append({'prop': m.group(1), 'match': m.group(2), 'text': m.group(3)})
    return res


def prepare(workdir, canary=False, skip_body=(), force_external=(), drop_statics=(), drop_contract=(), opaque_consts=()):
    os.makedirs(workdir, exist_ok=True)
    image, maps = gen.build_image(os.path.join(REPO, 'src'), canary=canary, skip_body=skip_body, force_external=force_external,
                                  drop_statics=drop_statics, drop_contract=drop_contract, opaque_consts=opaque_consts)
    name = 'canary' if canary else 'proof'
    d = os.path.join(workdir, name)
    os.makedirs(d, exist_ok=True)
    p = os.path.join(d, 'image.rs')
    open(p, 'w').write(image)
    maps['linemap'] = {int(k): v for k, v in maps['linemap'].items()}
    return p, image, maps


def main(argv):
    import argparse
    ap = argparse.ArgumentParser()
    ap.add_argument('prop', nargs='?')
    ap.add_argument('--tier', default=os.environ.get('VERIF_TIER', 'quick'))
    ap.add_argument('--replay')
    ap.add_argument('--all', action='store_true', help='developer mode: verdict for every property from one run')
    ap.add_argument('--no-kani', action='store_true')
    ap.add_argument('--no-canary', action='store_true')
    ap.add_argument('--keep', action='store_true')
    a = ap.parse_args(argv)
    if a.replay:
        return witness.replay_file(a.replay)
    props = ALL_PROPS if a.all else [a.prop]
    if not a.all and a.prop not in ALL_PROPS:
        print('usage: check <C01..C20> [--tier quick|thorough] | --replay <file>')
        return 2
    seed = int(os.environ.get('VERIF_SEED', '0') or 0)
    t0 = time.time()
    workdir = os.path.join(VERIF, 'work', 'run_%d' % os.getpid())
    try:
        return decide(props, a, seed, workdir, t0)
    finally:
        if not a.keep:
            shutil.rmtree(workdir, ignore_errors=True)


def decide(props, a, seed, workdir, t0):
    # ---- 1. image ---------------------------------------------------------------------------------
    try:
        ppath, image, maps = prepare(workdir, canary=False)
        cpath, cimage, cmaps = prepare(workdir, canary=True)
    except (gen.LostAnchor, rustscan.ScanError) as e:
        print('INCONCLUSIVE: generator: %s' % e)
        rc = 2
        for p in props:
            # no image, no proof; a concrete failing input on the real crate is still a violation
            fl = {'message': 'no crate image could be generated for this tree: %s' % e, 'rendered': '', 'fn': None, 'labels': [], 'lines': []}
            w = None if os.environ.get('VF_NO_SEARCH') else witness.search(p, ['no-image'], fl, REPO)
            if w and w.get('failing_input'):
                path = witness.write_replay(p, ['search:' + w['failing_input'].get('case', '?')], fl, w, None,
                                            note='no crate image could be generated, so nothing was proved; the bounded witness search on the real crate found this failing input')
                print('VIOLATION property=%s replay=%s' % (p, path))
                write_evidence(p, a.tier, seed, t0, None, violations=1, inconclusive=None, note=fl['message'])
                rc = 1
            else:
                write_evidence(p, a.tier, seed, t0, None, inconclusive='generator: %s' % e)
        return rc
    lookup = build_fnkey_lookup(image, maps)
    clookup = build_fnkey_lookup(cimage, cmaps)
    image_lines = image.split('\n')
    # ---- 2. Verus (proof image and canary image in parallel; thorough: extra seeds) -----------------
    jobs = {}
    with cf.ThreadPoolExecutor(max_workers=6) as ex:
        jobs['proof'] = ex.submit(run_verus, ppath, os.path.dirname(ppath), None, 8)
        if not a.no_canary:
            jobs['canary'] = ex.submit(run_verus, cpath, os.path.dirname(cpath), None, 6)
        if a.tier == 'thorough':
            for k in range(3):
                d = os.path.join(workdir, 'seed%d' % k)
                os.makedirs(d, exist_ok=True)
                shutil.copy(ppath, os.path.join(d, 'image.rs'))
                jobs['seed%d' % k] = ex.submit(run_verus, os.path.join(d, 'image.rs'), d, seed * 7 + 11 + k, 4)
        kani_future = None
        if not a.no_kani:
            hs = kani_run.harnesses_for(props, a.tier)
            if hs:
                kani_future = ex.submit(kani_run.run, hs, REPO, workdir, a.tier)
        vr = jobs['proof'].result()
        cr = jobs['canary'].result() if 'canary' in jobs else None
        seeds = [jobs[k].result() for k in sorted(jobs) if k.startswith('seed')]
        kr = kani_future.result() if kani_future else {'harnesses': [], 'build_error': None, 'wall': 0}
    fails = classify(vr, maps, image_lines, lookup)

    def mark_frontend(vr, fails):
        # the image did not reach the proof stage: every diagnostic is a front-end (rustc / VIR) rejection
        res = (vr['json'] or {}).get('verification-results', {})
        if vr['json'] is None or (not res.get('verified') and not res.get('errors')) or res.get('encountered-vir-error'):
            for f in fails:
                if f['kind'] == 'verification':
                    f['kind'] = 'frontend'
    mark_frontend(vr, fails)
    # Degrade instead of giving up: if the front end rejects spliced *body* annotations of a function (a local was
    # renamed, a statement moved), drop that function's body annotations and verify again.  Failures in such a
    # function are then only reported with a concrete witness.
    skip_body = set()
    force_external = set()
    drop_statics = set()
    drop_contract = set()
    opaque_consts = set()
    rejected_msgs = {}
    for _round in range(6):
        fe = [f for f in fails if f['kind'] == 'frontend']
        if not fe or (vr['json'] and vr['json'].get('verification-results', {}).get('verified')):
            break
        new_skip = set()
        for f in fe:
            # a front-end error located inside the body of a function that carries spliced body annotations
            # (ghost code, invariants, closure contracts): drop those annotations (the contract stays)
            for ln in f['lines']:
                if ln - 1 < len(image_lines):
                    # a rejected `static` item (possibly spanning several lines): dropped (R9)
                    for back in range(0, 12):
                        if ln - 1 - back < 0:
                            break
                        ms = re.match(r'\s*(?:pub(?:\([a-z]+\))?\s+)?static\s+(?:mut\s+)?(\w+)', image_lines[ln - 1 - back])
                        if ms:
                            if ms.group(1) not in drop_statics and ms.group(1) not in STATIC_ALLOWED:
                                new_skip.add('$' + ms.group(1))
                            break
                        mc = re.match(r'\s*(?:#\[[^\]]*\]\s*)*(?:pub(?:\([a-z]+\))?\s+)?const\s+(\w+)\s*:', image_lines[ln - 1 - back])
                        if mc and not [r for r in maps['fn_ranges'] if r[0] <= ln <= r[1]]:
                            # a rejected `const` initialiser outside any function: the constant becomes opaque (R12)
                            if mc.group(1) not in opaque_consts:
                                new_skip.add('%' + mc.group(1))
                            break
                        if back and re.search(r'[;{}]\s*$', image_lines[ln - 1 - back]):
                            break
                k = lookup(ln)
                rng = [r for r in maps['fn_ranges'] if r[0] <= ln <= r[1]]
                if k and rng and ln <= min(r[3] for r in rng) and k not in drop_contract and maps['contracts'].get(k) and '::<' not in k \
                        and (ln in maps['linemap'] or re.search(r'//\s*@vf\s*$', image_lines[ln - 1])):
                    # the spliced CONTRACT of an inherent / free function is rejected (signature changed): drop it
                    new_skip.add('#' + k)
                    continue
                if not k or not rng or ln <= min(r[3] for r in rng):
                    continue
                c = maps['contracts'].get(k)
                has_body_annotations = bool(c) and k not in skip_body and not c.get('external_body')
                if has_body_annotations:
                    new_skip.add(k)
                elif k not in force_external and k in maps['fn_index']:
                    # the real body itself is outside what Verus accepts (or still rejected without its annotations):
                    # leave the body outside the image; its contract is then ASSUMED for callers and every clause of
                    # it is reported as unverified (decided by a concrete witness)
                    new_skip.add('!' + k)
                    rejected_msgs.setdefault(k, f['message'])
        if not new_skip:
            break
        for k in new_skip:
            if k.startswith('!'):
                force_external.add(k[1:])
            elif k.startswith('$'):
                drop_statics.add(k[1:])
            elif k.startswith('#'):
                drop_contract.add(k[1:])
            elif k.startswith('%'):
                opaque_consts.add(k[1:])
            else:
                skip_body.add(k)
        ppath, image, maps = prepare(workdir, canary=False, skip_body=skip_body, force_external=force_external, drop_statics=drop_statics,
                                     drop_contract=drop_contract, opaque_consts=opaque_consts)
        lookup = build_fnkey_lookup(image, maps)
        image_lines = image.split('\n')
        vr = run_verus(ppath, os.path.dirname(ppath), None, 8)
        fails = classify(vr, maps, image_lines, lookup)
        mark_frontend(vr, fails)
    # ---- Kani twins (second opinion, DESIGN 2.6 step 2b): Verus failed an obligation of a small fixed-layout function for
    # which a COMPLETE Kani harness on the real crate exists (generated from the specification table).  If every twin of
    # that function succeeds, the obligation is discharged by Kani and the Verus failure is a proof-robustness warning
    # (typical cause: a bit-level rewrite the SMT encoding cannot see through); if a twin fails, the violation stands.
    twin_notes = []
    if not a.no_kani:
        failing_fns = sorted({f['fn'] for f in fails if f['kind'] == 'verification' and f['fn'] and not f.get('unverified')})
        ths = kani_run.twin_harnesses(failing_fns)
        if ths:
            already = {h['name']: h for h in kr['harnesses'] if h.get('twin_of')}    # thorough tier ran them in stage 1
            to_run = [h for h in ths if h['name'] not in already]
            tr = kani_run.run(to_run, REPO, workdir, a.tier) if to_run else {'harnesses': []}
            stage2 = list(tr['harnesses'])
            tr = {'harnesses': [already[h['name']] for h in ths if h['name'] in already] + stage2}
            by_fn = {}
            for h in tr['harnesses']:
                for k in h.get('twin_of', []):
                    by_fn.setdefault(k, []).append(h)
            discharged = {k for k, hs in by_fn.items() if k in failing_fns and hs and all(h['status'] == 'SUCCESSFUL' for h in hs)}
            for k in sorted(discharged):
                n = len([f for f in fails if f['fn'] == k and f['kind'] == 'verification'])
                twin_notes.append('%s: %d Verus failure(s) discharged by the complete Kani twin(s) %s' % (k, n, ', '.join(h['name'] for h in by_fn[k])))
            fails = [f for f in fails if not (f['fn'] in discharged and f['kind'] == 'verification' and not f.get('unverified'))]
            for h in stage2:
                h['props'] = []
                kr['harnesses'].append(h)
            for k, hs in by_fn.items():
                if k in failing_fns and k not in discharged:
                    twin_notes.append('%s: Kani twin(s) %s' % (k, ', '.join('%s=%s' % (h['name'], h['status']) for h in hs)))
    NEW_FN_CALLERS.clear()
    NEW_FN_CALLERS.update(maps.get('new_functions', {}))
    for k in maps.get('forced_external', []):
        lis = [i for i, l in enumerate(maps['labels']) if l['fn'] == k]
        if lis:
            fails.append({'kind': 'verification', 'message': 'function body is outside what the Verus front end accepts; its contract is unverified',
                          'labels': lis, 'fn': k, 'lines': [], 'rendered': 'unverified (forced external_body): %s' % k, 'unverified': True})
        # its safety obligation (no overflow / index / callee precondition / termination) is unverified as well
        fails.append({'kind': 'verification', 'message': 'function body is outside what the Verus front end accepts; its safety obligation is unverified',
                      'labels': [], 'fn': k, 'lines': [], 'rendered': 'unverified (forced external_body): %s' % k, 'unverified': True})
    # a failure reported on a spliced annotation line that carries no label (a closure contract that no longer fits the
    # closure it was spliced onto, ...) says nothing about the code: the function is treated as degraded
    for f in fails:
        body_lines = [ln for ln in f['lines'] if ln - 1 < len(image_lines) and ln not in maps['linemap']]
        prim_lines = [ln for ln in body_lines if re.search(r'//\s*@vf\s*$', image_lines[ln - 1])]
        if f['kind'] == 'verification' and not f['labels'] and prim_lines and f['fn']:
            maps.setdefault('lost_anchors', {}).setdefault(f['fn'], []).append('failure on an unlabelled spliced annotation line %s' % prim_lines[:2])
    if (skip_body or force_external or drop_statics or drop_contract or opaque_consts) and cr is not None:
        # the canary image must be degraded the same way as the proof image; the canary guards the vacuity of the
        # CONTRACTS (which do not depend on the tree), so if it still cannot be built it is skipped for this run
        try:
            cpath, cimage, cmaps = prepare(workdir, canary=True, skip_body=skip_body, force_external=force_external, drop_statics=drop_statics, drop_contract=drop_contract, opaque_consts=opaque_consts)
            clookup = build_fnkey_lookup(cimage, cmaps)
            cr = run_verus(cpath, os.path.dirname(cpath), None, 8)
        except (gen.LostAnchor, rustscan.ScanError):
            cr = None
    if cr is not None and (cr['json'] is None or not (cr['json'].get('verification-results', {}).get('verified') or cr['json'].get('verification-results', {}).get('errors'))):
        cr = None
    frame_files, frame_hits = frame_scan(REPO)
    if os.environ.get('VF_DEV'):
        for f in fails:
            names = [maps['labels'][li]['label']['name'] for li in f['labels']]
            print('DEV %-12s fn=%s labels=%s lines=%s :: %s' % (f['kind'], f['fn'], names, f['lines'][:3], f['message'][:100]))
    frontend = [f for f in fails if f['kind'] == 'frontend']
    if vr['json'] is None or (frontend and not vr['json'].get('verification-results', {}).get('verified')) \
            or (not vr['json'].get('verification-results', {}).get('verified') and not vr['json'].get('verification-results', {}).get('success')
                and not vr['json'].get('verification-results', {}).get('errors')):
        # the image did not reach the proof stage
        c19 = [f for f in frontend if C19_FORBIDDEN.search(f['message'] + f['rendered'])]
        if frame_hits and not c19:
            h = frame_hits[0]
            c19 = [{'message': 'frame scan: %s at %s:%d' % (h['what'], h['file'], h['line']), 'rendered': json.dumps(frame_hits[:10], indent=1),
                    'fn': None, 'labels': [], 'lines': []}]
        rc = 2
        for p in props:
            if p == 'C19' and c19:
                w = witness.search('C19', ['closed-world'], c19[0], REPO)
                path = witness.write_replay(p, ['C19:closed-world'], c19[0], w, vr, note='Verus closed world / frame scan: a construct outside the allow-list (output, clock, environment, shared state) on a codec path')
                print('VIOLATION property=C19 replay=%s%s' % (path, '' if (w and w.get('failing_input')) else ' no-failing-input-found'))
                write_evidence(p, a.tier, seed, t0, None, violations=1, inconclusive=None, note=c19[0]['message'])
                rc = 1
            else:
                msg = frontend[0]['message'] if frontend else (vr['stderr_other'][:3] or ['verus produced no result'])
                # no proof is possible for this tree; a concrete failing input on the real crate is still a violation
                fl = {'message': 'image rejected by the Verus front end: %s' % (msg,), 'rendered': (frontend[0]['rendered'] if frontend else '')[-3000:],
                      'fn': None, 'labels': [], 'lines': []}
                w = None if os.environ.get('VF_NO_SEARCH') else witness.search(p, ['image-rejected'], fl, REPO)
                if w and w.get('failing_input'):
                    path = witness.write_replay(p, ['search:' + w['failing_input'].get('case', '?')], fl, w, vr,
                                                note='the crate image was rejected by the Verus front end, so nothing was proved; the bounded witness search on the real crate found this failing input')
                    print('VIOLATION property=%s replay=%s' % (p, path))
                    write_evidence(p, a.tier, seed, t0, None, violations=1, inconclusive=None, note=fl['message'])
                    rc = 1
                else:
                    print('INCONCLUSIVE: property=%s image rejected by the Verus front end: %s' % (p, msg))
                    write_evidence(p, a.tier, seed, t0, None, inconclusive='front end: %s' % msg)
        if a.all or rc == 2:
            for f in frontend[:10]:
                print('  frontend: ' + f['rendered'].split('\n')[0][:200])
        return rc
    # ---- 3. per-function results --------------------------------------------------------------------
    fb = {}
    smt_total = 0.0
    for mod in vr['json'].get('times-ms', {}).get('smt', {}).get('smt-run-module-times', []):
        for f in mod.get('function-breakdown', []):
            fb[f['function']] = f
            smt_total += f.get('time-micros', f.get('time', 0)) / 1e6 if 'time-micros' in f else f.get('time', 0) / 1e3
    # ---- 4. canary: every contracted function must FAIL `ensures false` -------------------------------
    canary_info = {'checked': 0, 'failed_as_expected': 0, 'vacuous': [], 'frame_files': frame_files, 'frame_hits': frame_hits, 'twin_notes': twin_notes,
                   'exec_fns_verified': None, 'rejected_msgs': rejected_msgs}
    if cr is not None and cr['json'] is not None:
        cf_fails = classify(cr, cmaps, cimage.split('\n'), clookup)
        failed_fns = set()
        for f in cf_fails:
            if f['fn']:
                failed_fns.add(f['fn'])
            for li in f['labels']:
                nm = cmaps['labels'][li]['label']['name']
                if nm.startswith('canary:'):
                    failed_fns.add(nm[len('canary:'):])
        expected = [l['label']['name'][len('canary:'):] for l in cmaps['labels'] if l['label']['name'].startswith('canary:')]
        canary_info['checked'] = len(expected)
        canary_info['failed_as_expected'] = len([k for k in expected if k in failed_fns])
        canary_info['vacuous'] = sorted(k for k in expected if k not in failed_fns)
    # ---- 5. verdict per property ----------------------------------------------------------------------
    known = load_known_findings()
    contracts = maps['contracts']
    assumptions = scan_assumptions(image)
    ext = external_body_fns(image, lookup)
    rc_all = 0
    for p in props:
        rc = decide_one(p, a, seed, t0, vr, cr, seeds, kr, fails, maps, image, lookup, contracts, known, assumptions, ext,
                        canary_info, smt_total, fb)
        rc_all = max(rc_all, rc) if rc != 2 or rc_all == 0 else rc_all
        if rc == 1:
            rc_all = 1
    return rc_all


def label_names(maps, f):
    return [maps['labels'][li]['label']['name'] for li in f.get('labels', [])] or ['safety:' + (f.get('fn') or '?')]


def labels_for(maps, p):
    return [(i, l) for i, l in enumerate(maps['labels']) if role_of(p, l['label'])]


def decide_one(p, a, seed, t0, vr, cr, seeds, kr, fails, maps, image, lookup, contracts, known, assumptions, ext,
               canary_info, smt_total, fb):
    my_labels = labels_for(maps, p)
    my_label_idx = {i for i, _ in my_labels}
    # functions whose safety obligation belongs to p
    my_fns = sorted(k for k in maps['fn_index'] if role_of(p, default_safety(k, contracts)) and k not in ext
                    and not k.split('::')[-2:-1] == ['Reader'] and not k.split('::')[-2:-1] == ['Writer'])
    violations = []      # primary role (or secondary with a witness)
    candidates = []      # secondary role: decided by a concrete witness
    inconclusive = []
    # labels that failed, per function (for `~dep` suppression)
    failed_names = {}
    for f in fails:
        for li in f['labels']:
            failed_names.setdefault(maps['labels'][li]['fn'], set()).add(maps['labels'][li]['label']['name'])
            failed_names.setdefault(f['fn'], set()).add(maps['labels'][li]['label']['name'])
    for f in fails:
        role = None
        if f['labels']:
            for li in f['labels']:
                lab = maps['labels'][li]['label']
                owner = maps['labels'][li]['fn']
                deps = lab.get('deps', [])
                if any(d in failed_names.get(owner, ()) or d in failed_names.get(f['fn'], ()) for d in deps):
                    continue        # explained by a stronger clause of the same function
                r = role_of(p, lab)
                if owner != f['fn'] and f['fn']:
                    # a callee's precondition failed at a call site: the calling function's own safety roles refine the
                    # attribution (an unchecked read inside `reveal` is C13's and C02's, not C01's)
                    cs = default_safety(f['fn'], contracts)
                    if cs['props'] or cs['secondary']:
                        if r == 'primary' and p != 'C02' and p not in cs['props'] and p in cs['secondary']:
                            r = 'secondary'
                        elif p in cs['props']:
                            r = 'primary'
                if r == 'primary' or (r == 'secondary' and role is None):
                    role = r
        elif f['fn']:
            role = role_of(p, default_safety(f['fn'], contracts))
        if role is None:
            continue
        if role == 'primary' and f.get('unverified'):
            role = 'secondary'
        if role == 'primary' and f['fn'] in NEW_FN_CALLERS:
            # a failure inside a function that is new in this tree (no contract): it may rest on a precondition every
            # caller establishes (extracted helper), so it is undecided until a concrete witness is found
            role = 'secondary'
            f['degraded'] = ['function is new in this tree and carries no contract']
        if role == 'primary' and f['fn'] in maps.get('lost_anchors', {}):
            # the proof of this function lost an anchor: a failure here is undecided until a concrete witness is found
            role = 'secondary'
            f['degraded'] = maps['lost_anchors'][f['fn']]
        if f['kind'] in ('rlimit', 'frontend'):
            inconclusive.append(f)
        elif role == 'primary':
            violations.append(f)
        else:
            candidates.append(f)
    for f in fails:
        # a failure that no property claims (new function nobody calls, conversion impl, a diagnostic whose span lies in a
        # std macro, ...) must not end in OK
        if f['kind'] == 'verification' and not f['labels']:
            r = default_safety(f['fn'], contracts) if f['fn'] else {'props': [], 'secondary': []}
            is_fmt = bool(re.search(r' as (Debug|Display|fmt::Debug|fmt::Display)>::fmt$', f['fn'] or ''))   # text formatting of values: no codec path
            if not r['props'] and not r['secondary'] and not (f['fn'] or '').startswith('vf_') and not is_fmt:
                g = dict(f)
                g['undecided'] = True
                inconclusive.append(g)
    if candidates and not violations:
        # one witness search decides all secondary candidates of this property
        w = witness.search(p, [n for f in candidates for n in label_names(maps, f)], candidates[0], REPO)
        if w and w.get('failing_input'):
            for f in candidates:
                f['witness'] = w
            violations += candidates
        else:
            for f in candidates:
                f['undecided'] = True
            inconclusive += candidates
    # seeds (thorough): a failure under another seed that is not a failure under the default seed is a
    # proof-robustness warning, not an alarm
    unstable = []
    for s in seeds:
        if s['json'] is None:
            continue
        sf = classify(s, maps, image.split('\n'), lookup)
        for f in sf:
            if f['kind'] == 'verification' and not any(g['message'] == f['message'] and g['lines'] == f['lines'] for g in fails):
                unstable.append(f['rendered'].split('\n')[0] + ' @' + str(f['lines'][:2]))
    # Kani
    kani_mine = [h for h in kr['harnesses'] if p in h['props'] or p in h.get('secondary', [])]
    kani_viol = [h for h in kani_mine if h['status'] == 'FAILED' and p in h['props']]
    kani_cand = [h for h in kani_mine if h['status'] == 'FAILED' and p not in h['props']]
    if kani_cand and not kani_viol and not violations:
        w = witness.search(p, ['kani:' + h['name'] for h in kani_cand], {'message': 'Kani harness failed', 'fn': kani_cand[0].get('fn')}, REPO)
        if w and w.get('failing_input'):
            for h in kani_cand:
                h['witness'] = w
            kani_viol += kani_cand
        else:
            inconclusive.append({'kind': 'kani', 'undecided': True, 'labels': [], 'fn': kani_cand[0].get('fn'),
                                 'message': 'Kani harness %s failed' % kani_cand[0]['name'], 'rendered': 'Kani harness %s failed' % kani_cand[0]['name'], 'lines': []})
    kani_inc = [h for h in kani_mine if h['status'] not in ('SUCCESSFUL', 'FAILED')]
    if kr.get('build_error') and kani_run.harnesses_for([p], a.tier):
        kani_inc.append({'name': '<build>', 'status': 'BUILD-ERROR', 'output': kr['build_error'], 'props': [p], 'complete': False})
    # vacuity: canary
    vac = [k for k in canary_info['vacuous'] if role_of(p, default_safety(k, contracts)) or any(l['fn'] == k for _, l in my_labels)]
    extra_obl = 0
    extra_dis = 0
    if p == 'C19':
        for k in maps.get('forced_external', []):
            if re.search(r' as (Debug|Display|fmt::Debug|fmt::Display)>::fmt$', k):
                continue    # text formatting of values is not a codec path
            if k in maps.get('lost_anchors', {}) and any('debug_assertions' in x for x in maps['lost_anchors'][k]):
                continue    # not a front-end rejection (configuration-dependent external body): C19 is not concerned
            msg = canary_info.get('rejected_msgs', {}).get(k, '')
            paths = re.findall(r'`((?:std|core|alloc)::[A-Za-z0-9_:<>]+)`', msg)
            bad = [x for x in paths if not C19_PURE_STD.match(x)]
            if C19_FORBIDDEN.search(msg) or bad:
                # closed world: the rejected call is to something outside the pure part of std
                violations.append({'kind': 'verification', 'message': 'closed world: %s calls %s' % (k, ', '.join(bad) or msg[:120]),
                                   'rendered': msg, 'fn': k, 'labels': [], 'lines': [], 'names': ['C19:closed-world:%s' % k]})
                continue
            inconclusive.append({'kind': 'closed-world', 'labels': [], 'fn': k, 'lines': [], 'undecided': True,
                                 'message': 'the body of %s is rejected by the Verus front end, so the closed-world argument does not cover it' % k,
                                 'rendered': 'closed world void for %s (forced external_body)' % k})
        # (1) closed world: the image reached the proof stage, i.e. no verified function calls anything without a contract;
        # (2) frame scan: one obligation per non-test source file
        extra_obl = 1 + canary_info['frame_files']
        bad_files = {h['file'] for h in canary_info['frame_hits']}
        extra_dis = 1 + canary_info['frame_files'] - len(bad_files)
        for h in canary_info['frame_hits'][:1]:
            violations.append({'kind': 'verification', 'message': 'frame scan: %s at %s:%d' % (h['what'], h['file'], h['line']),
                               'rendered': json.dumps(canary_info['frame_hits'][:10], indent=1), 'fn': None, 'labels': [], 'lines': [],
                               'names': ['C19:frame:%s:%s' % (h['file'], h['what'])]})
    for k, prim in maps.get('missing_functions', {}).items():
        if p in prim:
            inconclusive.append({'kind': 'missing', 'labels': [], 'fn': k, 'lines': [], 'message': 'contracted function no longer exists',
                                 'rendered': 'contracted function %s no longer exists in the tree; its obligations for this property cannot be generated' % k})
    n_label_pre = len(my_labels) + extra_obl
    # thorough tier: the bounded witness search runs even when every obligation is discharged; a concrete failing
    # input on the real crate while the proofs pass would mean an assumed contract or the specification is wrong
    search_info = None
    if not violations and not kani_viol and not os.environ.get('VF_NO_SEARCH'):
        # bounded cross-check on every run: parts of some properties lie outside both provers (C20: the thiserror
        # `Display` text; C19: call histories and threads; every property: the contracts ASSUMED for external_body
        # functions, std wrappers and third-party macros).  A concrete failing input on the real crate is reported even
        # though every obligation is discharged.  It is never counted as an obligation.
        w = witness.search(p, ['bounded cross-check'], {'message': 'bounded witness search', 'fn': None}, REPO)
        search_info = {'ran': True, 'output_tail': (w or {}).get('output', '')[-300:], 'witness': (w or {}).get('failing_input')}
        sout = (w or {}).get('output', '')
        if not w or w.get('search_error') or 'SEARCH-TIMEOUT' in sout or not re.search(r'(?m)^(NO-WITNESS|WITNESS) property=%s\b' % p, sout):
            # the search is the only decider of what lies outside both provers (Display text, histories, assumed contracts):
            # if it cannot run against this tree (the replay tool no longer builds, it timed out), nothing is claimed
            why = (w or {}).get('search_error') or ('timed out' if 'SEARCH-TIMEOUT' in sout else 'no verdict line in its output')
            search_info['ran'] = False
            search_info['error'] = str(why)[:600]
            inconclusive.append({'kind': 'search', 'undecided': True, 'labels': [], 'fn': None, 'lines': [],
                                 'message': 'the bounded witness search did not complete against this tree: %s' % str(why)[:300],
                                 'rendered': 'the bounded witness search did not complete against this tree: %s' % str(why)[:1500]})
        if w and w.get('failing_input'):
            violations.append({'kind': 'verification', 'message': 'witness search found a failing input although every obligation is discharged',
                               'rendered': w.get('output', ''), 'fn': None, 'labels': [], 'lines': [], 'witness': w,
                               'names': ['search:' + str(w['failing_input'].get('case'))]})
    # ---- report -------------------------------------------------------------------------------------
    printed_violation = False
    known_hits = []
    new_viol = []
    for f in violations:
        names = f.get('names') or [maps['labels'][li]['label']['name'] for li in f['labels']] or ['safety:' + (f['fn'] or '?')]
        kf = [k for k in known if k['prop'] == p and any(k['match'] == n or re.fullmatch(k['match'].replace('*', '.*'), n) for n in names)]
        if kf:
            known_hits.append((kf[0], names))
        else:
            new_viol.append((f, names))
    for k, names in known_hits:
        print('KNOWN-FINDING: property=%s %s (%s)' % (p, k['text'], ','.join(names)))
    rc = 0
    if new_viol or kani_viol:
        for f, names in new_viol[:1]:
            w = f.get('witness') or witness.search(p, names, f, REPO)
            path = witness.write_replay(p, names, f, w, vr)
            tail = '' if (w and w.get('failing_input')) else ' no-failing-input-found'
            print('VIOLATION property=%s replay=%s%s' % (p, path, tail))
            printed_violation = True
        for f, names in new_viol[1:]:
            print('  also failing: %s  [%s]' % (','.join(names), f['message']))
        for h in kani_viol:
            w = h.get('witness') or witness.from_kani(p, h, REPO)
            path = witness.write_replay(p, ['kani:' + h['name']], {'message': 'Kani harness failed', 'rendered': h['output'][-4000:], 'fn': h.get('fn'), 'labels': [], 'lines': []}, w, None)
            tail = '' if (w and w.get('failing_input')) else ' no-failing-input-found'
            if not printed_violation:
                print('VIOLATION property=%s replay=%s%s' % (p, path, tail))
                printed_violation = True
            else:
                print('  also failing: kani:%s' % h['name'])
        rc = 1
    elif inconclusive or kani_inc or vac or (n_label_pre + len(my_fns) + len(kani_mine) == 0):
        seen_msgs = set()
        for f in inconclusive[:12]:
            key = (tuple(label_names(maps, f)), f.get('message'))
            if key in seen_msgs:
                continue
            seen_msgs.add(key)
            if f.get('undecided'):
                print('INCONCLUSIVE: property=%s obligation %s failed (%s); this property is only possibly affected and the bounded witness search found no failing input for it' % (p, ','.join(label_names(maps, f)), f['message']))
            else:
                print('INCONCLUSIVE: property=%s %s: %s' % (p, f['kind'], f['rendered'].split('\n')[0][:160]))
        for h in kani_inc[:5]:
            print('INCONCLUSIVE: property=%s kani harness %s: %s' % (p, h['name'], h['status']))
        if n_label_pre + len(my_fns) + len(kani_mine) == 0:
            print('INCONCLUSIVE: property=%s no obligation is registered for this property (vacuity guard)' % p)
        for k in vac[:5]:
            print('INCONCLUSIVE: property=%s vacuity canary: `ensures false` verified for %s (contradictory contract?)' % (p, k))
        rc = 2
    # ---- evidence -------------------------------------------------------------------------------------
    failed_label_idx = {li for f in violations + inconclusive for li in f['labels']}
    failed_pairs = {(maps['labels'][li]['fn'], maps['labels'][li]['label']['name']) for li in failed_label_idx}
    pairs = sorted({(l['fn'], l['label']['name']) for _, l in my_labels})
    failed_fns = {f['fn'] for f in violations + inconclusive if not f['labels'] and f['fn']}
    n_label = len(pairs)
    n_fn = len(my_fns)
    kani_complete = [h for h in kani_mine if h['complete']]
    kani_bounded = [h for h in kani_mine if not h['complete']]
    obligations = n_label + n_fn + len(kani_complete) + extra_obl
    discharged = (len([pr for pr in pairs if pr not in failed_pairs]) + len([k for k in my_fns if k not in failed_fns])
                  + len([h for h in kani_complete if h['status'] == 'SUCCESSFUL']) + extra_dis)
    samples = []
    for i, l in my_labels[:3] + my_labels[len(my_labels) // 2: len(my_labels) // 2 + 2]:
        lines = [ln for ln, li in maps['linemap'].items() if li == i]
        txt = ' '.join(re.sub(r'\s*//@L\d+', '', image.split('\n')[ln - 1]).strip() for ln in sorted(lines))
        samples.append({'label': l['label']['name'], 'function': l['fn'], 'clause': txt[:400], 'backend': 'verus',
                        'status': 'failed' if i in failed_label_idx else 'discharged'})
    for k in my_fns[:2]:
        samples.append({'label': 'safety:' + k, 'function': k,
                        'clause': 'no overflow/underflow, every index and slice in range, every callee precondition (incl. Reader/Writer contracts), no reachable panic, loops terminate',
                        'backend': 'verus', 'status': 'failed' if k in failed_fns else 'discharged'})
    for h in kani_mine[:3]:
        samples.append({'label': 'kani:' + h['name'], 'function': h.get('fn'), 'clause': h.get('what', ''), 'backend': 'kani' + (' (complete)' if h['complete'] else ' (bounded: %s)' % h.get('bound')),
                        'status': h['status']})
    my_ext = sorted(k for k in ext if any(l['fn'] == k for _, l in my_labels))
    prelude_ext = sorted(k for k in ext if k.startswith('vf_prelude') or k.startswith('md5'))
    cov = {
        'obligations': obligations,
        'discharged': discharged,
        'checker_cmd': vr['cmd'] + '   (image generated from %s/src by vf/gen.py; canary image likewise)' % REPO + ('; cargo kani --harness ... on a scratch copy of %s' % REPO if kani_mine else ''),
        'trusted_base': [
            'rustc, Verus 0.2026.09.13 (VIR/AIR, bundled Z3), Kani 0.68 / CBMC 6.11',
            'crate-image generator vf/gen.py: rules R1-R6, stand-ins D2-D8 (DESIGN.md 2.3); audit below',
            'assumed std / wrapper contracts and axioms listed under assumed_contracts',
            'machine integers as in rustc (usize = 64 bit); allocation never fails; no stack overflow',
        ],
        'labelled_clauses': n_label,
        'safety_obligations': n_fn,
        'kani_complete_harnesses': len(kani_complete),
        'functions_under_contract': sorted({l['fn'] for _, l in my_labels} | set(my_fns)),
        'functions_external_body_with_assumed_contract': my_ext,
        'assumed_contracts': assumptions,
        'kani_harnesses': [{k: h.get(k) for k in ('name', 'status', 'complete', 'bound', 'what', 'time_s', 'fn')} for h in kani_mine],
        'bounded': [{'harness': h['name'], 'bound': h.get('bound'), 'status': h['status']} for h in kani_bounded]
                   + ([{'harness': 'vf_replay search %s (bounded witness search on the real crate, reference codec as oracle)' % p,
                        'bound': (re.search(r'cases=(\d+)', search_info.get('output_tail', '')) or [None, '?'])[1] + ' enumerated cases',
                        'status': 'WITNESS' if search_info.get('witness') else 'NO-WITNESS'}] if search_info else []),
        'samples': samples,
        'image_audit': maps['audit'],
        'rules_applied': maps['rules_applied'],
        'external_bodies_dropped_from_image': maps['external_bodies'],
        'canary': {'functions_checked': canary_info['checked'], 'failed_as_expected': canary_info['failed_as_expected'],
                   'vacuous_for_this_property': vac},
        'verus': {'verified': vr['json']['verification-results'].get('verified'), 'errors': vr['json']['verification-results'].get('errors'),
                  'wall_s': round(vr['wall'], 2), 'smt_time_s': round(smt_total, 2)},
        'proof_stability_warnings': unstable[:20] + canary_info.get('twin_notes', []),
        'witness_search': search_info or {'ran': bool(candidates or violations), 'note': 'bounded, deterministic; used to attach failing inputs and to decide secondary attributions; never counted as an obligation'},
        'lost_anchors': maps.get('lost_anchors', {}),
        'explanation': 'Each obligation is a labelled contract clause, loop invariant or lemma of the crate image (real function bodies of /repo/src, '
                       'mechanically inlined), or the safety obligation of one function, or one complete Kani harness on the real crate. '
                       'Bounded Kani harnesses are listed under `bounded` and are not counted.',
    }
    ev = {
        'property_id': p, 'tier': a.tier, 'seed': seed, 'level': 'proof', 'coverage': cov,
        'assumptions': assumptions + ['external_body (contract assumed in Verus, discharged by Kani where a harness is listed): ' + k for k in my_ext]
                       + ['prelude wrapper / stand-in with assumed contract: ' + k for k in prelude_ext],
        'wall_s': round(time.time() - t0, 2), 'violations': len(new_viol) + len(kani_viol),
    }
    if rc == 2:
        ev['coverage']['inconclusive'] = [f['rendered'].split('\n')[0] for f in inconclusive] + [h['name'] + ':' + h['status'] for h in kani_inc] + vac
    os.makedirs(os.path.join(EVIDENCE_DIR), exist_ok=True)
    json.dump(ev, open(os.path.join(EVIDENCE_DIR, p + '.json'), 'w'), indent=1)
    if rc == 0:
        print('OK property=%s obligations=%d discharged=%d (verus clauses %d, safety %d, kani complete %d; bounded %d) wall=%.1fs'
              % (p, obligations, discharged, n_label, n_fn, len(kani_complete), len(kani_bounded), time.time() - t0))
    return rc


def write_evidence(p, tier, seed, t0, cov, violations=0, inconclusive=None, note=None):
    ev = {'property_id': p, 'tier': tier, 'seed': seed, 'level': 'proof',
          'coverage': cov or {'obligations': 1, 'discharged': 0, 'checker_cmd': 'verus image.rs', 'trusted_base': [],
                              'explanation': 'run did not reach the proof stage: %s' % (inconclusive or note)},
          'wall_s': round(time.time() - t0, 2), 'violations': violations}
    os.makedirs(os.path.join(EVIDENCE_DIR), exist_ok=True)
    json.dump(ev, open(os.path.join(EVIDENCE_DIR, p + '.json'), 'w'), indent=1)


def guarded_main(argv):
    """An internal error of the machinery is never an alarm: exit 2 (INCONCLUSIVE), not Python's exit status 1."""
    try:
        return main(argv)
    except SystemExit:
        raise
    except BaseException as e:   # noqa: BLE001
        import traceback
        traceback.print_exc()
        print('INCONCLUSIVE: internal error of the checking machinery: %r' % (e,))
        return 2


if __name__ == '__main__':
    sys.exit(guarded_main(sys.argv[1:]))
