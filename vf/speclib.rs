// vf_spec: the specification library (DESIGN.md §2.4).  Written from RFC 2661 and the crate's documented
// conventions (Appendix B of DESIGN.md), not from the code.
pub mod vf_spec {
use vstd::prelude::*;
use crate::vf_prelude::*;
verus! {

// ---- sequence algebra (broadcast group; lives here so that crate modules may `broadcast use` it) ----
pub broadcast proof fn lemma_skip_skip(s: Seq<u8>, a: int, b: int)
    requires 0 <= a, 0 <= b, a + b <= s.len(),
    ensures #[trigger] s.skip(a).skip(b) == s.skip(a + b),
{ assert(s.skip(a).skip(b) =~= s.skip(a + b)); }
pub broadcast proof fn lemma_skip_zero(s: Seq<u8>)
    ensures #[trigger] s.skip(0) == s,
{ assert(s.skip(0) =~= s); }
pub broadcast proof fn lemma_skip_all(s: Seq<u8>)
    ensures #[trigger] s.skip(s.len() as int) == Seq::<u8>::empty(),
{ assert(s.skip(s.len() as int) =~= Seq::<u8>::empty()); }
pub broadcast proof fn lemma_take_all(s: Seq<u8>)
    ensures #[trigger] s.take(s.len() as int) == s,
{ assert(s.take(s.len() as int) =~= s); }
pub broadcast proof fn lemma_concat_take_skip(a: Seq<u8>, b: Seq<u8>)
    ensures
        #[trigger] (a + b).take(a.len() as int) == a,
        (a + b).skip(a.len() as int) == b,
{
    assert((a + b).take(a.len() as int) =~= a);
    assert((a + b).skip(a.len() as int) =~= b);
}
pub broadcast proof fn lemma_concat_empty(a: Seq<u8>)
    ensures #[trigger] (a + Seq::<u8>::empty()) == a, Seq::<u8>::empty() + a == a,
{
    assert(a + Seq::<u8>::empty() =~= a);
    assert(Seq::<u8>::empty() + a =~= a);
}
pub broadcast proof fn lemma_avp_eq(a: AvpV, b: AvpV)
    ensures #[trigger] avp_eq(a, b) <==> a == b,
{ }

pub broadcast group group_spec_seq {
    lemma_skip_skip, lemma_skip_zero, lemma_skip_all, lemma_take_all, lemma_concat_take_skip, lemma_concat_empty,
    lemma_avp_eq,
    crate::vf_prelude::group_be,
    crate::vf_prelude::axiom_chars_bytes_utf8,
    crate::vf_prelude::axiom_borrow_view_vec,
    crate::vf_prelude::axiom_borrow_view_slice_ref,
}

// positional overwrite (Writer::write_bytes_at)
pub open spec fn spec_overwrite(s: Seq<u8>, off: int, b: Seq<u8>) -> Seq<u8> {
    Seq::new(s.len(), |i: int| if off <= i < off + b.len() { b[i - off] } else { s[i] })
}

// ---- header flag word (RFC 2661 §3.1; crate bit numbering, DESIGN Appendix B †) -----------------------
// T = bit 8, L = bit 9, S = bit 12, O = bit 14, P = bit 15, version = bits 4..7, reserved = {0,1,2,3,10,11,13}
pub open spec fn fw_t(w: int) -> bool { (w / 256) % 2 == 1 }
pub open spec fn fw_l(w: int) -> bool { (w / 512) % 2 == 1 }
pub open spec fn fw_s(w: int) -> bool { (w / 4096) % 2 == 1 }
pub open spec fn fw_o(w: int) -> bool { (w / 16384) % 2 == 1 }
pub open spec fn fw_p(w: int) -> bool { (w / 32768) % 2 == 1 }
pub open spec fn fw_version(w: int) -> int { (w / 16) % 16 }
pub open spec fn fw_reserved_ok(w: int) -> bool { w % 16 == 0 && (w / 1024) % 4 == 0 && (w / 8192) % 2 == 0 }
pub open spec fn spec_flag_word(control: bool, l: bool, s: bool, o: bool, p: bool, version: int) -> int {
    (if control { 256int } else { 0 }) + (if l { 512int } else { 0 }) + (if s { 4096int } else { 0 })
    + (if o { 16384int } else { 0 }) + (if p { 32768int } else { 0 }) + version * 16
}

//@@GENERATED_SPEC_TABLE@@

// ---- kind 1, Result Code (RFC 2661 §4.4.2): code(2) [error(2) [message(utf8+)]] ---------------------
// slots: i0 = result code (raw), n = optional groups present (0: code only, 1: + error, 2: + message),
// i1 = error code, b0 = message octets.  A single octet after the code is ignored (crate convention †).
pub open spec fn pdec_1(p: Seq<u8>) -> Option<AvpV> {
    if p.len() < 2 { None }
    else if p.len() < 4 {
        Some(AvpV { kind: 1, hidden: false, n: 0, i0: be16(p), i1: 0, i2: 0, i3: 0, i4: 0, i5: 0, b0: Seq::<u8>::empty(), b1: Seq::<u8>::empty() })
    }
    else if spec_error_type_of(be16(p.skip(2)) as u16) is None { None }
    else if p.len() == 4 {
        Some(AvpV { kind: 1, hidden: false, n: 1, i0: be16(p), i1: be16(p.skip(2)), i2: 0, i3: 0, i4: 0, i5: 0, b0: Seq::<u8>::empty(), b1: Seq::<u8>::empty() })
    }
    else if !is_utf8(p.skip(2).skip(2)) { None }
    else {
        Some(AvpV { kind: 1, hidden: false, n: 2, i0: be16(p), i1: be16(p.skip(2)), i2: 0, i3: 0, i4: 0, i5: 0, b0: p.skip(2).skip(2), b1: Seq::<u8>::empty() })
    }
}
pub open spec fn penc_1(v: AvpV) -> Seq<u8> {
    if v.n == 0 { enc16(v.i0) } else if v.n == 1 { enc16(v.i0) + enc16(v.i1) } else { enc16(v.i0) + (enc16(v.i1) + v.b0) }
}
pub open spec fn pok_1(v: AvpV) -> bool {
    v.kind == 1 && !v.hidden && 0 <= v.i0 < 65536
    && (v.n == 0 || v.n == 1 || v.n == 2)
    && (v.n == 0 ==> v.i1 == 0)
    && (v.n >= 1 ==> 0 <= v.i1 < 65536 && spec_error_type_of(v.i1 as u16) is Some)
    && (v.n <= 1 ==> v.b0.len() == 0)
    && (v.n == 2 ==> v.b0.len() > 0 && is_utf8(v.b0))
    && v.i2 == 0 && v.i3 == 0 && v.i4 == 0 && v.i5 == 0 && v.b1.len() == 0
}
// hidden AVP: attribute number kept, value octets kept verbatim (possibly empty)
pub open spec fn pok_hidden(v: AvpV) -> bool {
    v.hidden && 0 <= v.kind < 65536 && v.n == 0
    && v.i0 == 0 && v.i1 == 0 && v.i2 == 0 && v.i3 == 0 && v.i4 == 0 && v.i5 == 0 && v.b1.len() == 0
}
pub open spec fn hidden_view(attribute_type: int, value: Seq<u8>) -> AvpV {
    AvpV { kind: attribute_type, hidden: true, n: 0, i0: 0, i1: 0, i2: 0, i3: 0, i4: 0, i5: 0, b0: value, b1: Seq::<u8>::empty() }
}

} // verus!
}
