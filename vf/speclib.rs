// vf_spec: the specification library (DESIGN.md §2.4).  Written from RFC 2661 and the crate's documented
// conventions (Appendix B of DESIGN.md), not from the code.
pub mod vf_spec {
use vstd::prelude::*;
use crate::vf_prelude::*;
verus! {

// ---- sequence algebra (broadcast group; lives here so that crate modules may `broadcast use` it) ----
pub broadcast proof fn lemma_skip_skip(s: Seq<u8>, a: int, b: int)
    requires 0 <= a, 0 <= b, a + b <= s.len(),
    ensures #[trigger] s.skip(a).skip(b) == s.skip(a + b),
{ assert(s.skip(a).skip(b) =~= s.skip(a + b)); }
pub broadcast proof fn lemma_skip_zero(s: Seq<u8>)
    ensures #[trigger] s.skip(0) == s,
{ assert(s.skip(0) =~= s); }
pub broadcast proof fn lemma_skip_all(s: Seq<u8>)
    ensures #[trigger] s.skip(s.len() as int) == Seq::<u8>::empty(),
{ assert(s.skip(s.len() as int) =~= Seq::<u8>::empty()); }
pub broadcast proof fn lemma_take_all(s: Seq<u8>)
    ensures #[trigger] s.take(s.len() as int) == s,
{ assert(s.take(s.len() as int) =~= s); }
pub broadcast proof fn lemma_concat_skip(a: Seq<u8>, b: Seq<u8>, k: int)
    requires k == a.len(),
    ensures #[trigger] (a + b).skip(k) == b,
{ assert((a + b).skip(k) =~= b); }
pub broadcast proof fn lemma_concat_take(a: Seq<u8>, b: Seq<u8>, k: int)
    requires k == a.len(),
    ensures #[trigger] (a + b).take(k) == a,
{ assert((a + b).take(k) =~= a); }
pub broadcast proof fn lemma_concat_empty(a: Seq<u8>)
    ensures #[trigger] (a + Seq::<u8>::empty()) == a, Seq::<u8>::empty() + a == a,
{
    assert(a + Seq::<u8>::empty() =~= a);
    assert(Seq::<u8>::empty() + a =~= a);
}
pub broadcast proof fn lemma_avp_eq(a: AvpV, b: AvpV)
    ensures #[trigger] avp_eq(a, b) <==> a == b,
{ }

pub broadcast group group_spec_seq {
    lemma_skip_zero, lemma_skip_all, lemma_take_all, lemma_concat_skip, lemma_concat_take, lemma_concat_empty,
    lemma_avp_eq,
    crate::vf_prelude::group_be,
    crate::vf_prelude::axiom_chars_bytes_utf8,
    crate::vf_prelude::axiom_borrow_view_vec,
    crate::vf_prelude::axiom_vec_len_isize,
    crate::vf_prelude::axiom_borrow_view_slice_ref,
}

// positional overwrite (Writer::write_bytes_at)
pub open spec fn spec_overwrite(s: Seq<u8>, off: int, b: Seq<u8>) -> Seq<u8> {
    Seq::new(s.len(), |i: int| if off <= i < off + b.len() { b[i - off] } else { s[i] })
}

// ---- header flag word (RFC 2661 §3.1; crate bit numbering, DESIGN Appendix B †) -----------------------
// T = bit 8, L = bit 9, S = bit 12, O = bit 14, P = bit 15, version = bits 4..7, reserved = {0,1,2,3,10,11,13}
pub closed spec fn fw_t(w: int) -> bool { (w / 256) % 2 == 1 }
pub closed spec fn fw_l(w: int) -> bool { (w / 512) % 2 == 1 }
pub closed spec fn fw_s(w: int) -> bool { (w / 4096) % 2 == 1 }
pub closed spec fn fw_o(w: int) -> bool { (w / 16384) % 2 == 1 }
pub closed spec fn fw_p(w: int) -> bool { (w / 32768) % 2 == 1 }
pub closed spec fn fw_version(w: int) -> int { (w / 16) % 16 }
pub closed spec fn fw_reserved_ok(w: int) -> bool { w % 16 == 0 && (w / 1024) % 4 == 0 && (w / 8192) % 2 == 0 }
pub closed spec fn spec_flag_word(control: bool, l: bool, s: bool, o: bool, p: bool, version: int) -> int {
    (if control { 256int } else { 0 }) + (if l { 512int } else { 0 }) + (if s { 4096int } else { 0 })
    + (if o { 16384int } else { 0 }) + (if p { 32768int } else { 0 }) + version * 16
}

//@@GENERATED_SPEC_TABLE@@

// ---- kind 1, Result Code (RFC 2661 §4.4.2): code(2) [error(2) [message(utf8+)]] ---------------------
// slots: i0 = result code (raw), n = optional groups present (0: code only, 1: + error, 2: + message),
// i1 = error code, b0 = message octets.  A single octet after the code is ignored (crate convention †).
pub open spec fn pdec_1(p: Seq<u8>) -> Option<AvpV> {
    if p.len() < 2 { None }
    else if p.len() < 4 {
        Some(AvpV { kind: 1, hidden: false, n: 0, i0: be16(p), i1: 0, i2: 0, i3: 0, i4: 0, i5: 0, b0: Seq::<u8>::empty(), b1: Seq::<u8>::empty() })
    }
    else if spec_error_type_of(be16(p.skip(2)) as u16) is None { None }
    else if p.len() == 4 {
        Some(AvpV { kind: 1, hidden: false, n: 1, i0: be16(p), i1: be16(p.skip(2)), i2: 0, i3: 0, i4: 0, i5: 0, b0: Seq::<u8>::empty(), b1: Seq::<u8>::empty() })
    }
    else if !is_utf8(p.skip(2).skip(2)) { None }
    else {
        Some(AvpV { kind: 1, hidden: false, n: 2, i0: be16(p), i1: be16(p.skip(2)), i2: 0, i3: 0, i4: 0, i5: 0, b0: p.skip(2).skip(2), b1: Seq::<u8>::empty() })
    }
}
pub open spec fn penc_1(v: AvpV) -> Seq<u8> {
    if v.n == 0 { enc16(v.i0) } else if v.n == 1 { enc16(v.i0) + enc16(v.i1) } else { enc16(v.i0) + (enc16(v.i1) + v.b0) }
}
pub open spec fn pok_1(v: AvpV) -> bool {
    v.kind == 1 && !v.hidden && 0 <= v.i0 < 65536
    && (v.n == 0 || v.n == 1 || v.n == 2)
    && (v.n == 0 ==> v.i1 == 0)
    && (v.n >= 1 ==> 0 <= v.i1 < 65536 && spec_error_type_of(v.i1 as u16) is Some)
    && (v.n <= 1 ==> v.b0.len() == 0)
    && (v.n == 2 ==> v.b0.len() > 0 && is_utf8(v.b0))
    && v.i2 == 0 && v.i3 == 0 && v.i4 == 0 && v.i5 == 0 && v.b1.len() == 0
}
pub open spec fn perr_1(p: Seq<u8>) -> Option<crate::common::DecodeError> {
    if p.len() < 2 { Some(crate::common::DecodeError::IncompleteAVP(1)) }
    else if p.len() < 4 { None }
    else if spec_error_type_of(be16(p.skip(2)) as u16) is None { Some(crate::common::DecodeError::InvalidResultCodeErrorType(be16(p.skip(2)) as u16)) }
    else if p.len() > 4 && !is_utf8(p.skip(2).skip(2)) { Some(crate::common::DecodeError::InvalidUtf8(1)) }
    else { None }
}
pub proof fn lemma_pdec_penc_1(v: AvpV)
    requires pok_1(v),
    ensures pdec_1(penc_1(v)) is Some, avp_eq(pdec_1(penc_1(v))->Some_0, v), //[C03,C10,C11:spec.avp1.roundtrip]
{
    broadcast use group_spec_seq;
    if v.n == 2 {
        assert(penc_1(v).skip(2) =~= enc16(v.i1) + v.b0);
        assert(penc_1(v).skip(2).skip(2) =~= v.b0);
    } else if v.n == 1 {
        assert(penc_1(v).skip(2) =~= enc16(v.i1));
    }
}
pub proof fn lemma_pdec_ok_1(p: Seq<u8>)
    requires pdec_1(p) is Some,
    ensures pok_1(pdec_1(p)->Some_0), penc_1(pdec_1(p)->Some_0).len() <= p.len(), //[C10:spec.avp1.decoded_is_encodable]
{
    broadcast use group_spec_seq;
}
// hidden AVP: attribute number kept, value octets kept verbatim (possibly empty)
pub open spec fn pok_hidden(v: AvpV) -> bool {
    v.hidden && 0 <= v.kind < 65536 && v.n == 0
    && v.i0 == 0 && v.i1 == 0 && v.i2 == 0 && v.i3 == 0 && v.i4 == 0 && v.i5 == 0 && v.b1.len() == 0
}
pub open spec fn hidden_view(attribute_type: int, value: Seq<u8>) -> AvpV {
    AvpV { kind: attribute_type, hidden: true, n: 0, i0: 0, i1: 0, i2: 0, i3: 0, i4: 0, i5: 0, b0: value, b1: Seq::<u8>::empty() }
}


// =====================================================================================================
// AVP framing (RFC 2661 §4.1; crate bit numbering †: octet 0 = length bits 9..8 in its two high bits,
// M = bit 0, H = bit 1; octet 1 = length bits 7..0; then vendor id, attribute type, payload)
pub open spec fn hdr_len(s: Seq<u8>) -> int { (s[0] as int / 64) * 256 + s[1] as int }
pub open spec fn hdr_hidden(s: Seq<u8>) -> bool { (s[0] as int / 2) % 2 == 1 }

// result of decoding one AVP record: a value, or an error whose identity is given where the
// properties name it (None = some error)
pub enum RecV { Ok(AvpV), Err(Option<crate::common::DecodeError>) }

pub open spec fn spec_decode_avp(kind: int, p: Seq<u8>) -> RecV {
    if !spec_kind_assigned(kind) { RecV::Err(Some(crate::common::DecodeError::UnknownAvp(kind as u16))) }
    else {
        match spec_payload_dec(kind, p) {
            Some(v) => RecV::Ok(v),
            None => RecV::Err(spec_payload_err(kind, p)),
        }
    }
}

pub open spec fn spec_avp_list(s: Seq<u8>) -> Seq<RecV>
    decreases s.len(),
{
    if s.len() < 6 { Seq::<RecV>::empty() }
    else {
        let len = hdr_len(s);
        if len < 6 || len > s.len() { seq![RecV::Err(None)] }
        else {
            let payload = s.skip(6).take(len - 6);
            let vendor = be16(s.skip(2));
            let kind = be16(s.skip(2).skip(2));
            let this = if vendor != 0 { RecV::Err(Some(crate::common::DecodeError::UnsupportedVendorId(vendor as u16))) }
                       else if hdr_hidden(s) { RecV::Ok(hidden_view(kind, payload)) }
                       else { spec_decode_avp(kind, payload) };
            seq![this] + spec_avp_list(s.skip(6).skip(len - 6))
        }
    }
}

// value part: same acceptance, equal value;  error part: identity of the error where the specification names it
pub open spec fn rec_val(r: Result<crate::avp::AVP, crate::common::DecodeError>, s: RecV) -> bool {
    match s { RecV::Ok(v) => r is Ok && r->Ok_0.av() == v, RecV::Err(_) => r is Err }
}
pub open spec fn rec_err(r: Result<crate::avp::AVP, crate::common::DecodeError>, s: RecV) -> bool {
    match s { RecV::Err(Some(e)) => r is Err ==> r->Err_0 == e, _ => true }
}
pub open spec fn list_val(rs: Seq<Result<crate::avp::AVP, crate::common::DecodeError>>, ss: Seq<RecV>) -> bool {
    rs.len() == ss.len() && forall |i: int| 0 <= i < rs.len() ==> rec_val(#[trigger] rs[i], ss[i])
}
pub open spec fn list_err(rs: Seq<Result<crate::avp::AVP, crate::common::DecodeError>>, ss: Seq<RecV>) -> bool {
    rs.len() == ss.len() ==> forall |i: int| 0 <= i < rs.len() ==> rec_err(#[trigger] rs[i], ss[i])
}
pub proof fn lemma_list_val_push(rs: Seq<Result<crate::avp::AVP, crate::common::DecodeError>>, ss: Seq<RecV>,
                                 r: Result<crate::avp::AVP, crate::common::DecodeError>, s: RecV)
    requires list_val(rs, ss), rec_val(r, s),
    ensures list_val(rs.push(r), ss.push(s)),
{ }
pub proof fn lemma_list_err_push(rs: Seq<Result<crate::avp::AVP, crate::common::DecodeError>>, ss: Seq<RecV>,
                                 r: Result<crate::avp::AVP, crate::common::DecodeError>, s: RecV)
    requires list_err(rs, ss), rec_err(r, s), rs.len() == ss.len(),
    ensures list_err(rs.push(r), ss.push(s)),
{ }

// ---- encoders --------------------------------------------------------------------------------------
pub open spec fn spec_enc_avp(v: AvpV) -> Seq<u8> {
    let body = enc16(v.kind) + spec_payload_enc(v);
    let len = 4 + body.len();
    seq![(((len / 256) % 4) * 64 + 1 + (if v.hidden { 2int } else { 0 })) as u8, (len % 256) as u8] + (enc16(0) + body)
}
pub open spec fn avp_fits(v: AvpV) -> bool { 6 + spec_payload_enc(v).len() <= 1023 }
pub open spec fn spec_enc_avps(l: Seq<AvpV>) -> Seq<u8>
    decreases l.len(),
{
    if l.len() == 0 { Seq::<u8>::empty() } else { spec_enc_avps(l.drop_last()) + spec_enc_avp(l.last()) }
}

// ---- control message (RFC 2661 §3.1) -------------------------------------------------------------------
pub struct CtlV { pub length: int, pub tunnel: int, pub session: int, pub ns: int, pub nr: int, pub avps: Seq<AvpV> }

pub open spec fn recs_all_ok(l: Seq<RecV>) -> bool { forall |i: int| 0 <= i < l.len() ==> (#[trigger] l[i]) is Ok }
pub open spec fn recs_values(l: Seq<RecV>) -> Seq<AvpV> { Seq::new(l.len(), |i: int| l[i]->Ok_0) }
pub open spec fn rec_is_message_type(r: RecV) -> bool { r is Ok && !r->Ok_0.hidden && r->Ok_0.kind == 0 }
// acceptance of the AVP list of a control message: every record decodes, first (if any) is a Message Type
pub open spec fn spec_tail_ok(l: Seq<RecV>) -> bool { recs_all_ok(l) && (l.len() > 0 ==> rec_is_message_type(l[0])) }
// the errors a rejected list must report when its first record is a valid Message Type: one per bad record, in order
pub open spec fn recs_errors(l: Seq<RecV>) -> Seq<Option<crate::common::DecodeError>>
    decreases l.len(),
{
    if l.len() == 0 { Seq::empty() }
    else {
        let rest = recs_errors(l.drop_last());
        match l.last() { RecV::Err(e) => rest.push(e), RecV::Ok(_) => rest }
    }
}
pub open spec fn errs_match(es: Seq<crate::common::DecodeError>, ss: Seq<Option<crate::common::DecodeError>>) -> bool {
    es.len() == ss.len() && forall |i: int| 0 <= i < es.len() ==> ((#[trigger] ss[i]) is Some ==> es[i] == ss[i]->Some_0)
}

// b = octets after the flag word w.  The record list of a control message whose fixed header is acceptable.
pub open spec fn spec_control_list(w: int, check_unused: bool, b: Seq<u8>) -> Option<Seq<RecV>> {
    if check_unused && (fw_p(w) || fw_o(w)) { None }
    else if !fw_l(w) || !fw_s(w) { None }
    else if b.len() < 10 { None }
    else {
        let length = be16(b);
        let body = b.skip(2).skip(2).skip(2).skip(2).skip(2);
        if length < 12 || length - 12 > body.len() { None }
        else { Some(spec_avp_list(body.take(length - 12))) }
    }
}
// result = (value, octets left after the message)
pub open spec fn spec_control(w: int, check_unused: bool, b: Seq<u8>) -> Option<(CtlV, Seq<u8>)> {
    match spec_control_list(w, check_unused, b) {
        None => None,
        Some(l) => {
            if !spec_tail_ok(l) { None }
            else {
                let length = be16(b);
                Some((CtlV { length: length, tunnel: be16(b.skip(2)), session: be16(b.skip(2).skip(2)),
                             ns: be16(b.skip(2).skip(2).skip(2)), nr: be16(b.skip(2).skip(2).skip(2).skip(2)),
                             avps: recs_values(l) },
                      b.skip(2).skip(2).skip(2).skip(2).skip(2).skip(length - 12)))
            }
        }
    }
}
pub open spec fn spec_enc_control(m: CtlV, version: int) -> Seq<u8> {
    let body = spec_enc_avps(m.avps);
    enc16(spec_flag_word(true, true, true, false, false, version)) + (enc16(12 + body.len() as int) + (enc16(m.tunnel) + (enc16(m.session)
        + (enc16(m.ns) + (enc16(m.nr) + body)))))
}
pub open spec fn control_fits(m: CtlV) -> bool {
    (forall |i: int| 0 <= i < m.avps.len() ==> avp_fits(#[trigger] m.avps[i])) && 12 + spec_enc_avps(m.avps).len() <= 65535
}
pub open spec fn ctl_eq(a: CtlV, b: CtlV) -> bool {
    a.length == b.length && a.tunnel == b.tunnel && a.session == b.session && a.ns == b.ns && a.nr == b.nr && a.avps =~= b.avps
}

// ---- list post-processing of a decoded control message (std semantics of R6 wrappers) -----------------------
pub open spec fn g_err(x: Result<crate::avp::AVP, crate::common::DecodeError>) -> Option<crate::common::DecodeError> {
    match x { Err(e) => Some(e), Ok(_) => None }
}
pub open spec fn g_ok(x: Result<crate::avp::AVP, crate::common::DecodeError>) -> Option<crate::avp::AVP> {
    match x { Ok(a) => Some(a), Err(_) => None }
}
pub open spec fn g_is_err(x: Result<crate::avp::AVP, crate::common::DecodeError>) -> bool { x is Err }
pub open spec fn avps_view(s: Seq<crate::avp::AVP>) -> Seq<AvpV> { Seq::new(s.len(), |i: int| s[i].av()) }

pub proof fn lemma_filter_ok(rs: Seq<Result<crate::avp::AVP, crate::common::DecodeError>>, ss: Seq<RecV>)
    requires list_val(rs, ss), recs_all_ok(ss),
    ensures avps_view(filter_map_spec(rs, |x| g_ok(x))) =~= recs_values(ss),
    decreases rs.len(),
{
    let g = |x: Result<crate::avp::AVP, crate::common::DecodeError>| g_ok(x);
    if rs.len() > 0 {
        let rs1 = rs.drop_last();
        let ss1 = ss.drop_last();
        assert(list_val(rs1, ss1)) by {
            assert forall |i: int| 0 <= i < rs1.len() implies rec_val(#[trigger] rs1[i], ss1[i]) by {
                assert(rec_val(rs[i], ss[i]));
            }
        }
        assert(recs_all_ok(ss1)) by {
            assert forall |i: int| 0 <= i < ss1.len() implies (#[trigger] ss1[i]) is Ok by { assert(ss[i] is Ok); }
        }
        lemma_filter_ok(rs1, ss1);
        assert(rec_val(rs[rs.len() - 1], ss[rs.len() - 1]));
        assert(ss[rs.len() - 1] is Ok);
        assert(rs.last() is Ok);
        let f1 = filter_map_spec(rs1, g);
        assert(filter_map_spec(rs, g) == f1.push(rs.last()->Ok_0));
        assert(avps_view(f1) =~= recs_values(ss1));
        assert(avps_view(f1.push(rs.last()->Ok_0)) =~= avps_view(f1).push(rs.last()->Ok_0.av()));
        assert(recs_values(ss) =~= recs_values(ss1).push(ss.last()->Ok_0));
    } else {
        assert(filter_map_spec(rs, g) =~= Seq::empty());
    }
}
// number of errors (value part) and their identities (error part) are separate facts
pub open spec fn errs_len_match(es: Seq<crate::common::DecodeError>, ss: Seq<Option<crate::common::DecodeError>>) -> bool {
    es.len() == ss.len()
}
pub proof fn lemma_filter_err_len(rs: Seq<Result<crate::avp::AVP, crate::common::DecodeError>>, ss: Seq<RecV>)
    requires list_val(rs, ss),
    ensures filter_map_spec(rs, |x| g_err(x)).len() == recs_errors(ss).len(),
    decreases rs.len(),
{
    let g = |x: Result<crate::avp::AVP, crate::common::DecodeError>| g_err(x);
    if rs.len() > 0 {
        let rs1 = rs.drop_last();
        let ss1 = ss.drop_last();
        assert(list_val(rs1, ss1)) by {
            assert forall |i: int| 0 <= i < rs1.len() implies rec_val(#[trigger] rs1[i], ss1[i]) by {
                assert(rec_val(rs[i], ss[i]));
            }
        }
        lemma_filter_err_len(rs1, ss1);
        assert(rec_val(rs[rs.len() - 1], ss[rs.len() - 1]));
    }
}
pub proof fn lemma_filter_err(rs: Seq<Result<crate::avp::AVP, crate::common::DecodeError>>, ss: Seq<RecV>)
    requires list_val(rs, ss), list_err(rs, ss),
    ensures errs_match(filter_map_spec(rs, |x| g_err(x)), recs_errors(ss)),
    decreases rs.len(),
{
    let g = |x: Result<crate::avp::AVP, crate::common::DecodeError>| g_err(x);
    if rs.len() > 0 {
        let rs1 = rs.drop_last();
        let ss1 = ss.drop_last();
        assert(list_val(rs1, ss1)) by {
            assert forall |i: int| 0 <= i < rs1.len() implies rec_val(#[trigger] rs1[i], ss1[i]) by {
                assert(rec_val(rs[i], ss[i]));
            }
        }
        assert(list_err(rs1, ss1)) by {
            assert forall |i: int| 0 <= i < rs1.len() implies rec_err(#[trigger] rs1[i], ss1[i]) by {
                assert(rec_err(rs[i], ss[i]));
            }
        }
        lemma_filter_err(rs1, ss1);
        assert(rec_val(rs[rs.len() - 1], ss[rs.len() - 1]));
        assert(rec_err(rs[rs.len() - 1], ss[rs.len() - 1]));
    }
}
pub proof fn lemma_any_err(rs: Seq<Result<crate::avp::AVP, crate::common::DecodeError>>, ss: Seq<RecV>)
    requires list_val(rs, ss),
    ensures seq_any(rs, |x| g_is_err(x)) <==> !recs_all_ok(ss),
{
    let g = |x: Result<crate::avp::AVP, crate::common::DecodeError>| g_is_err(x);
    if !recs_all_ok(ss) {
        let i = choose |i: int| 0 <= i < ss.len() && !((#[trigger] ss[i]) is Ok);
        assert(rec_val(rs[i], ss[i]));
        assert(g(rs[i]));
        assert(seq_any(rs, g));
    } else {
        assert forall |i: int| 0 <= i < rs.len() implies !(#[trigger] g(rs[i])) by {
            assert(rec_val(rs[i], ss[i]));
            assert(ss[i] is Ok);
        }
        assert(!seq_any(rs, g));
    }
}
pub proof fn lemma_errors_nonempty(ss: Seq<RecV>)
    requires !recs_all_ok(ss),
    ensures recs_errors(ss).len() > 0,
    decreases ss.len(),
{
    if ss.len() > 0 {
        if ss.last() is Ok {
            assert(!recs_all_ok(ss.drop_last())) by {
                let i = choose |i: int| 0 <= i < ss.len() && !((#[trigger] ss[i]) is Ok);
                assert(ss.drop_last()[i] == ss[i]);
            }
            lemma_errors_nonempty(ss.drop_last());
        }
    }
}

// ---- data message (RFC 2661 §3.1) -------------------------------------------------------------------------
pub struct DataV {
    pub prio: bool, pub length: Option<int>, pub tunnel: int, pub session: int,
    pub ns_nr: Option<(int, int)>, pub offset: Option<int>, pub data: Seq<u8>,
}
// each step consumes a prefix (wire order): [Length] tunnel session [Ns Nr] [offset size n, n pad octets] payload
pub open spec fn spec_data(w: int, b0: Seq<u8>) -> Option<(DataV, Seq<u8>)> {
    let need: int = 4 + (if fw_l(w) { 2int } else { 0 }) + (if fw_s(w) { 4int } else { 0 }) + (if fw_o(w) { 2int } else { 0 });
    if b0.len() < need { None } else {
        let length = if fw_l(w) { Some(be16(b0)) } else { None };
        let b1 = if fw_l(w) { b0.skip(2) } else { b0 };
        let tunnel = be16(b1);
        let session = be16(b1.skip(2));
        let b2 = b1.skip(2).skip(2);
        let ns_nr = if fw_s(w) { Some((be16(b2), be16(b2.skip(2)))) } else { None };
        let b3 = if fw_s(w) { b2.skip(2).skip(2) } else { b2 };
        let pad: int = if fw_o(w) { be16(b3) } else { 0 };
        let b4 = if fw_o(w) { b3.skip(2) } else { b3 };
        if b4.len() < pad { None } else {
            let b5 = b4.skip(pad);
            // Length counts every octet from the first flag octet: 2 + need + pad + |payload|
            let n: int = match length { Some(l) => l - (2 + need + pad), None => b5.len() as int };
            if n <= 0 || n > b5.len() { None }
            else {
                Some((DataV { prio: fw_p(w), length: length, tunnel: tunnel, session: session, ns_nr: ns_nr, offset: None, data: b5.take(n) },
                      b5.skip(n)))
            }
        }
    }
}
pub open spec fn data_eq(a: DataV, b: DataV) -> bool {
    a.prio == b.prio && a.length == b.length && a.tunnel == b.tunnel && a.session == b.session && a.ns_nr == b.ns_nr
    && a.offset == b.offset && a.data =~= b.data
}
// the one fault of a data message that carries a value: offset size larger than what follows it
pub open spec fn spec_data_offset_fault(w: int, b0: Seq<u8>) -> Option<int> {
    let need: int = 4 + (if fw_l(w) { 2int } else { 0 }) + (if fw_s(w) { 4int } else { 0 }) + (if fw_o(w) { 2int } else { 0 });
    if b0.len() < need || !fw_o(w) { None } else {
        let b1 = if fw_l(w) { b0.skip(2) } else { b0 };
        let b2 = b1.skip(2).skip(2);
        let b3 = if fw_s(w) { b2.skip(2).skip(2) } else { b2 };
        if b3.skip(2).len() < be16(b3) { Some(be16(b3)) } else { None }
    }
}
pub open spec fn spec_enc_data(d: DataV, version: int) -> Seq<u8> {
    enc16(spec_flag_word(false, d.length is Some, d.ns_nr is Some, d.offset is Some, d.prio, version))
    + ((match d.length { Some(l) => enc16(l), None => Seq::<u8>::empty() })
    + (enc16(d.tunnel) + (enc16(d.session)
    + ((match d.ns_nr { Some(p) => enc16(p.0) + enc16(p.1), None => Seq::<u8>::empty() })
    + ((match d.offset { Some(o) => enc16(o), None => Seq::<u8>::empty() })
    + d.data)))))
}

// ---- message -----------------------------------------------------------------------------------------------
pub enum MsgV { Control(CtlV), Data(DataV) }
pub open spec fn spec_message(b: Seq<u8>, check_reserved: bool, check_version: bool, check_unused: bool) -> Option<(MsgV, Seq<u8>)> {
    if b.len() < 2 { None }
    else {
        let w = be16(b);
        if check_version && fw_version(w) != 2 { None }
        else if check_reserved && !fw_reserved_ok(w) { None }
        else if fw_t(w) {
            match spec_control(w, check_unused, b.skip(2)) { Some(r) => Some((MsgV::Control(r.0), r.1)), None => None }
        } else {
            match spec_data(w, b.skip(2)) { Some(r) => Some((MsgV::Data(r.0), r.1)), None => None }
        }
    }
}
// the flag word is present and passes the enabled version / reserved-bit checks
pub open spec fn spec_message_reaches_body(b: Seq<u8>, check_reserved: bool, check_version: bool) -> bool {
    b.len() >= 2 && !(check_version && fw_version(be16(b)) != 2) && !(check_reserved && !fw_reserved_ok(be16(b)))
}
pub open spec fn msg_eq(a: MsgV, b: MsgV) -> bool {
    match (a, b) {
        (MsgV::Control(x), MsgV::Control(y)) => ctl_eq(x, y),
        (MsgV::Data(x), MsgV::Data(y)) => data_eq(x, y),
        _ => false,
    }
}
pub open spec fn spec_enc_message(m: MsgV) -> Seq<u8> {
    match m { MsgV::Control(c) => spec_enc_control(c, 2), MsgV::Data(d) => spec_enc_data(d, 2) }
}


// =====================================================================================================
// Hidden AVP values (RFC 2661 §4.3).  MD5 is uninterpreted (crate::md5::spec_md5): the construction is
// specified for any 16-octet hash.
pub open spec fn md5s(x: Seq<u8>) -> Seq<u8> { crate::md5::spec_md5(x) }
pub open spec fn xor_block(a: Seq<u8>, k: Seq<u8>) -> Seq<u8> { Seq::new(16, |j: int| a[j] ^ k[j]) }
// i-th ciphertext block: c_0 = p_0 xor MD5(type ++ secret ++ rv);  c_i = p_i xor MD5(secret ++ c_{i-1})
pub open spec fn cblock(p: Seq<u8>, t: Seq<u8>, secret: Seq<u8>, rv: Seq<u8>, i: int) -> Seq<u8>
    decreases i,
{
    if i <= 0 { xor_block(p.subrange(0, 16), md5s(t + secret + rv)) }
    else { xor_block(p.subrange(16 * i, 16 * i + 16), md5s(secret + cblock(p, t, secret, rv, i - 1))) }
}
pub open spec fn encrypt(p: Seq<u8>, t: Seq<u8>, secret: Seq<u8>, rv: Seq<u8>) -> Seq<u8> {
    Seq::new(p.len(), |k: int| cblock(p, t, secret, rv, k / 16)[k % 16])
}
// plaintext: original-length subfield (6 + |value|), value, length padding, then just enough alignment padding
pub open spec fn spec_hide_plain(payload: Seq<u8>, lp: Seq<u8>, ap: Seq<u8>) -> Seq<u8> {
    let body = enc16(6 + payload.len() as int) + payload + lp;
    let pad = (16 - body.len() % 16) % 16;
    body + ap.take(pad)
}
pub open spec fn spec_hide_value(kind: int, payload: Seq<u8>, secret: Seq<u8>, rv: Seq<u8>, lp: Seq<u8>, ap: Seq<u8>) -> Seq<u8> {
    encrypt(spec_hide_plain(payload, lp, ap), enc16(kind), secret, rv)
}
// decryption keys use ciphertext blocks
pub open spec fn dkey(c: Seq<u8>, t: Seq<u8>, secret: Seq<u8>, rv: Seq<u8>, i: int) -> Seq<u8> {
    if i <= 0 { md5s(t + secret + rv) } else { md5s(secret + c.subrange(16 * (i - 1), 16 * i)) }
}
pub open spec fn decrypt(c: Seq<u8>, t: Seq<u8>, secret: Seq<u8>, rv: Seq<u8>) -> Seq<u8> {
    Seq::new(c.len(), |k: int| c[k] ^ dkey(c, t, secret, rv, k / 16)[k % 16])
}
pub open spec fn spec_reveal(kind: int, c: Seq<u8>, secret: Seq<u8>, rv: Seq<u8>) -> RecV {
    if c.len() == 0 || c.len() % 16 != 0 { RecV::Err(None) }
    else {
        let p = decrypt(c, enc16(kind), secret, rv);
        let total = be16(p);
        if total < 6 || total > 1023 || total - 6 > p.len() - 2 { RecV::Err(None) }
        else { spec_decode_avp(kind, p.skip(2).take(total - 6)) }
    }
}
pub proof fn lemma_av_kind_range(a: crate::avp::AVP)
    ensures 0 <= a.av().kind < 65536,
{ }


// =====================================================================================================
// Spec-level theorems: the properties as lemmas over the specification functions that the code is
// proved equal to (C05 `equiv` clauses, C06 `bytes` clauses).

// ---- flag word ------------------------------------------------------------------------------------------
pub proof fn lemma_flag_word(control: bool, l: bool, s: bool, o: bool, p: bool, version: int)
    requires 0 <= version <= 15,
    ensures ({ let w = spec_flag_word(control, l, s, o, p, version);
        0 <= w < 65536 && fw_t(w) == control && fw_l(w) == l && fw_s(w) == s && fw_o(w) == o && fw_p(w) == p
        && fw_version(w) == version && fw_reserved_ok(w) }), //[C03,C04,C10:spec.flag_word.roundtrip]
{ }

// ---- C14: validation options only restrict -----------------------------------------------------------------
pub proof fn lemma_options_monotone(b: Seq<u8>, r: bool, v: bool, u: bool, r2: bool, v2: bool, u2: bool)
    requires (r ==> r2), (v ==> v2), (u ==> u2), spec_message(b, r2, v2, u2) is Some,
    ensures spec_message(b, r, v, u) == spec_message(b, r2, v2, u2), //[C14:spec.options.monotone]
{ }
pub proof fn lemma_options_exact(b: Seq<u8>, r: bool, v: bool, u: bool)
    requires b.len() >= 2,
    ensures
        v && fw_version(be16(b)) != 2 ==> spec_message(b, r, v, u) is None, //[C14:spec.options.version_rejects]
        r && !fw_reserved_ok(be16(b)) ==> spec_message(b, r, v, u) is None, //[C14:spec.options.reserved_rejects]
        u && fw_t(be16(b)) && (fw_p(be16(b)) || fw_o(be16(b))) ==> spec_message(b, r, v, u) is None, //[C14:spec.options.unused_rejects]
        // a check that cannot fire changes nothing
        fw_version(be16(b)) == 2 ==> spec_message(b, r, true, u) == spec_message(b, r, false, u), //[C14:spec.options.version_exact]
        fw_reserved_ok(be16(b)) ==> spec_message(b, true, v, u) == spec_message(b, false, v, u), //[C14:spec.options.reserved_exact]
        !(fw_t(be16(b)) && (fw_p(be16(b)) || fw_o(be16(b)))) ==> spec_message(b, r, v, true) == spec_message(b, r, v, false), //[C14:spec.options.unused_exact]
{ }

// ---- C08: octets after the declared end have no influence ----------------------------------------------------
pub proof fn lemma_control_suffix(w: int, u: bool, b: Seq<u8>, s: Seq<u8>)
    requires spec_control(w, u, b) is Some,
    ensures
        spec_control(w, u, b + s) is Some,
        spec_control(w, u, b + s)->Some_0.0 == spec_control(w, u, b)->Some_0.0, //[C08:spec.control.suffix_value]
        spec_control(w, u, b + s)->Some_0.1 == spec_control(w, u, b)->Some_0.1 + s, //[C08:spec.control.suffix_rest]
{
    broadcast use group_spec_seq;
    let length = be16(b);
    let n = length - 12;
    let body = b.skip(2).skip(2).skip(2).skip(2).skip(2);
    let body2 = (b + s).skip(2).skip(2).skip(2).skip(2).skip(2);
    assert(body2 =~= body + s);
    assert(body2.take(n) =~= body.take(n));
    assert(body2.skip(n) =~= body.skip(n) + s);
    assert(be16(b + s) == be16(b)) by { assert((b + s).take(b.len() as int) =~= b); lemma_be16_prefix(b + s, b.len() as int); }
    assert(be16((b + s).skip(2)) == be16(b.skip(2))) by {
        assert((b + s).skip(2).take(b.len() - 2) =~= b.skip(2)); lemma_be16_prefix((b + s).skip(2), b.len() - 2); }
    assert(be16((b + s).skip(2).skip(2)) == be16(b.skip(2).skip(2))) by {
        assert((b + s).skip(2).skip(2).take(b.len() - 4) =~= b.skip(2).skip(2)); lemma_be16_prefix((b + s).skip(2).skip(2), b.len() - 4); }
    assert(be16((b + s).skip(2).skip(2).skip(2)) == be16(b.skip(2).skip(2).skip(2))) by {
        assert((b + s).skip(2).skip(2).skip(2).take(b.len() - 6) =~= b.skip(2).skip(2).skip(2));
        lemma_be16_prefix((b + s).skip(2).skip(2).skip(2), b.len() - 6); }
    assert(be16((b + s).skip(2).skip(2).skip(2).skip(2)) == be16(b.skip(2).skip(2).skip(2).skip(2))) by {
        assert((b + s).skip(2).skip(2).skip(2).skip(2).take(b.len() - 8) =~= b.skip(2).skip(2).skip(2).skip(2));
        lemma_be16_prefix((b + s).skip(2).skip(2).skip(2).skip(2), b.len() - 8); }
}

// ---- C08: a data message that carries a Length ends where it says -----------------------------------------------
pub proof fn lemma_data_suffix(w: int, b: Seq<u8>, s: Seq<u8>)
    requires spec_data(w, b) is Some, fw_l(w),
    ensures
        spec_data(w, b + s) is Some,
        data_eq(spec_data(w, b + s)->Some_0.0, spec_data(w, b)->Some_0.0), //[C08:spec.data.suffix_value]
        spec_data(w, b + s)->Some_0.1 =~= spec_data(w, b)->Some_0.1 + s, //[C08:spec.data.suffix_rest]
{
    broadcast use group_spec_seq;
    let c = b + s;
    let need: int = 4 + 2 + (if fw_s(w) { 4int } else { 0 }) + (if fw_o(w) { 2int } else { 0 });
    assert(b.len() >= need);
    assert(be16(c) == be16(b)) by { assert(c.take(b.len() as int) =~= b); lemma_be16_prefix(c, b.len() as int); }
    let b1 = b.skip(2); let c1 = c.skip(2);
    assert(c1 =~= b1 + s);
    assert(be16(c1) == be16(b1)) by { assert(c1.take(b1.len() as int) =~= b1); lemma_be16_prefix(c1, b1.len() as int); }
    assert(c1.skip(2) =~= b1.skip(2) + s);
    assert(be16(c1.skip(2)) == be16(b1.skip(2))) by {
        assert(c1.skip(2).take(b1.len() - 2) =~= b1.skip(2)); lemma_be16_prefix(c1.skip(2), b1.len() - 2); }
    let b2 = b1.skip(2).skip(2); let c2 = c1.skip(2).skip(2);
    assert(c2 =~= b2 + s);
    if fw_s(w) {
        assert(be16(c2) == be16(b2)) by { assert(c2.take(b2.len() as int) =~= b2); lemma_be16_prefix(c2, b2.len() as int); }
        assert(c2.skip(2) =~= b2.skip(2) + s);
        assert(be16(c2.skip(2)) == be16(b2.skip(2))) by {
            assert(c2.skip(2).take(b2.len() - 2) =~= b2.skip(2)); lemma_be16_prefix(c2.skip(2), b2.len() - 2); }
    }
    let b3 = if fw_s(w) { b2.skip(2).skip(2) } else { b2 };
    let c3 = if fw_s(w) { c2.skip(2).skip(2) } else { c2 };
    assert(c3 =~= b3 + s);
    if fw_o(w) {
        assert(be16(c3) == be16(b3)) by { assert(c3.take(b3.len() as int) =~= b3); lemma_be16_prefix(c3, b3.len() as int); }
    }
    let pad: int = if fw_o(w) { be16(b3) } else { 0 };
    let b4 = if fw_o(w) { b3.skip(2) } else { b3 };
    let c4 = if fw_o(w) { c3.skip(2) } else { c3 };
    assert(c4 =~= b4 + s);
    assert(b4.len() >= pad);
    let b5 = b4.skip(pad); let c5 = c4.skip(pad);
    assert(c5 =~= b5 + s);
    let n: int = be16(b) - (2 + need + pad);
    assert(0 < n <= b5.len());
    assert(c5.take(n) =~= b5.take(n));
    assert(c5.skip(n) =~= b5.skip(n) + s);
}
// C08 for messages: a control message, or a data message with a Length field, decodes to the same value whatever
// follows it, and what is left over is exactly what followed it
pub open spec fn msg_delimited(b: Seq<u8>) -> bool { b.len() >= 2 && (fw_t(be16(b)) || fw_l(be16(b))) }
pub proof fn lemma_message_suffix(b: Seq<u8>, s: Seq<u8>, r: bool, v: bool, u: bool)
    requires spec_message(b, r, v, u) is Some, msg_delimited(b),
    ensures
        spec_message(b + s, r, v, u) is Some,
        msg_eq(spec_message(b + s, r, v, u)->Some_0.0, spec_message(b, r, v, u)->Some_0.0), //[C08:spec.message.suffix_value]
        spec_message(b + s, r, v, u)->Some_0.1 =~= spec_message(b, r, v, u)->Some_0.1 + s, //[C08:spec.message.suffix_rest]
{
    broadcast use group_spec_seq;
    let c = b + s;
    assert(be16(c) == be16(b)) by { assert(c.take(b.len() as int) =~= b); lemma_be16_prefix(c, b.len() as int); }
    assert(c.skip(2) =~= b.skip(2) + s);
    let w = be16(b);
    if fw_t(w) { lemma_control_suffix(w, u, b.skip(2), s); } else { lemma_data_suffix(w, b.skip(2), s); }
}
// back-to-back decoding (strictest options) of n messages, and the concatenation of n encodings
pub open spec fn spec_messages(b: Seq<u8>, n: nat) -> Option<(Seq<MsgV>, Seq<u8>)>
    decreases n,
{
    if n == 0 { Some((Seq::<MsgV>::empty(), b)) }
    else {
        match spec_message(b, true, true, true) {
            None => None,
            Some(r1) => match spec_messages(r1.1, (n - 1) as nat) {
                None => None,
                Some(r2) => Some((seq![r1.0] + r2.0, r2.1)),
            },
        }
    }
}
pub open spec fn spec_enc_messages(ms: Seq<MsgV>) -> Seq<u8>
    decreases ms.len(),
{
    if ms.len() == 0 { Seq::<u8>::empty() } else { spec_enc_message(ms[0]) + spec_enc_messages(ms.skip(1)) }
}
pub open spec fn msg_encodable_delimited(m: MsgV) -> bool {
    match m {
        MsgV::Control(c) => control_encodable(c),
        MsgV::Data(d) => d.length is Some && data_encodable(d, spec_enc_data(d, 2).len() as int),
    }
}
// what decoding spec_enc_message(m) gives (Length tracks the size for control messages; a written offset is consumed)
pub open spec fn msg_decoded_form(m: MsgV) -> MsgV {
    match m {
        MsgV::Control(c) => MsgV::Control(CtlV { length: spec_enc_control(c, 2).len() as int, tunnel: c.tunnel, session: c.session, ns: c.ns, nr: c.nr, avps: c.avps }),
        MsgV::Data(d) => MsgV::Data(DataV { prio: d.prio, length: d.length, tunnel: d.tunnel, session: d.session, ns_nr: d.ns_nr, offset: None,
                                            data: d.data.skip(match d.offset { Some(o) => o, None => 0 }) }),
    }
}
pub proof fn lemma_enc_message_delimited(m: MsgV)
    requires msg_encodable_delimited(m),
    ensures msg_delimited(spec_enc_message(m)),
{
    broadcast use group_spec_seq;
    match m {
        MsgV::Control(c) => {
            lemma_flag_word(true, true, true, false, false, 2);
            let w = spec_flag_word(true, true, true, false, false, 2);
            let e = spec_enc_control(c, 2);
            assert(be16(e) == w);
        },
        MsgV::Data(d) => {
            lemma_flag_word(false, true, d.ns_nr is Some, d.offset is Some, d.prio, 2);
            let w = spec_flag_word(false, true, d.ns_nr is Some, d.offset is Some, d.prio, 2);
            let e = spec_enc_data(d, 2);
            assert(be16(e) == w);
        },
    }
}
// one step: an encodable delimited message followed by anything decodes to its decoded form and leaves what followed
pub proof fn lemma_message_step(m: MsgV, t: Seq<u8>)
    requires msg_encodable_delimited(m),
    ensures ({
        let r = spec_message(spec_enc_message(m) + t, true, true, true);
        r is Some && r->Some_0.1 =~= t && msg_eq(r->Some_0.0, msg_decoded_form(m))
    }),
{
    let e = spec_enc_message(m);
    lemma_enc_message_delimited(m);
    match m {
        MsgV::Control(c) => { lemma_control_roundtrip(c); },
        MsgV::Data(d) => { lemma_data_roundtrip(d); },
    }
    let r0 = spec_message(e, true, true, true);
    assert(r0 is Some && r0->Some_0.1.len() == 0);
    assert(msg_eq(r0->Some_0.0, msg_decoded_form(m)));
    lemma_message_suffix(e, t, true, true, true);
    assert(r0->Some_0.1 + t =~= t);
}
pub proof fn lemma_msg_eq_trans(a: MsgV, b: MsgV, c: MsgV)
    requires msg_eq(a, b), msg_eq(b, c),
    ensures msg_eq(a, c),
{ }
// C08 + C09 at the level of message sequences: n delimited messages encoded one after another decode back to back to
// the n values (in order), leaving exactly the octets that followed them
pub proof fn lemma_messages_back_to_back(ms: Seq<MsgV>, tail: Seq<u8>)
    requires forall |i: int| 0 <= i < ms.len() ==> msg_encodable_delimited(#[trigger] ms[i]),
    ensures ({
        let r = spec_messages(spec_enc_messages(ms) + tail, ms.len());
        r is Some && r->Some_0.1 =~= tail && r->Some_0.0.len() == ms.len()
        && forall |i: int| 0 <= i < ms.len() ==> msg_eq(#[trigger] r->Some_0.0[i], msg_decoded_form(ms[i]))
    }), //[C08,C09:spec.messages.back_to_back]
    decreases ms.len(),
{
    if ms.len() == 0 {
        assert(spec_enc_messages(ms) + tail =~= tail);
    } else {
        let m = ms[0];
        let rest = ms.skip(1);
        let e = spec_enc_message(m);
        let t2 = spec_enc_messages(rest) + tail;
        assert(spec_enc_messages(ms) + tail =~= e + t2);
        lemma_message_step(m, t2);
        let r1 = spec_message(e + t2, true, true, true)->Some_0;
        assert(r1.1 == t2);
        assert forall |i: int| 0 <= i < rest.len() implies msg_encodable_delimited(#[trigger] rest[i]) by { assert(rest[i] == ms[i + 1]); }
        lemma_messages_back_to_back(rest, tail);
        let r2 = spec_messages(t2, rest.len())->Some_0;
        let r = spec_messages(e + t2, ms.len());
        assert(rest.len() == ms.len() - 1);
        assert(r == Some((seq![r1.0] + r2.0, r2.1)));
        let out = r->Some_0.0;
        assert(out.len() == ms.len());
        assert forall |i: int| 0 <= i < ms.len() implies msg_eq(#[trigger] out[i], msg_decoded_form(ms[i])) by {
            if i > 0 { assert(out[i] == r2.0[i - 1]); assert(rest[i - 1] == ms[i]); }
            else { assert(out[0] == r1.0); }
        }
    }
}
// C09 at the level of message sequences: appending encodings one after another to a writer that holds `pre` gives
// `pre` followed by the concatenation of the individual encodings (each step is the `prefix`/`bytes` clause of write)
pub open spec fn spec_write_messages(pre: Seq<u8>, ms: Seq<MsgV>) -> Seq<u8>
    decreases ms.len(),
{
    if ms.len() == 0 { pre } else { spec_write_messages(pre + spec_enc_message(ms[0]), ms.skip(1)) }
}
pub proof fn lemma_write_messages(pre: Seq<u8>, ms: Seq<MsgV>)
    ensures spec_write_messages(pre, ms) =~= pre + spec_enc_messages(ms), //[C09:spec.messages.write_concat]
    decreases ms.len(),
{
    broadcast use group_spec_seq;
    if ms.len() > 0 {
        lemma_write_messages(pre + spec_enc_message(ms[0]), ms.skip(1));
        assert((pre + spec_enc_message(ms[0])) + spec_enc_messages(ms.skip(1)) =~= pre + (spec_enc_message(ms[0]) + spec_enc_messages(ms.skip(1))));
    }
}

// ---- C11: decryption inverts encryption (any 16-octet hash) ----------------------------------------------------
proof fn lemma_xor_inv(a: u8, k: u8)
    ensures (a ^ k) ^ k == a,
{ assert((a ^ k) ^ k == a) by (bit_vector); }

pub proof fn lemma_decrypt_encrypt(p: Seq<u8>, t: Seq<u8>, secret: Seq<u8>, rv: Seq<u8>)
    requires p.len() % 16 == 0, p.len() >= 16,
    ensures decrypt(encrypt(p, t, secret, rv), t, secret, rv) == p, //[C11:spec.decrypt_encrypt]
{
    broadcast use crate::md5::axiom_md5_len;
    let c = encrypt(p, t, secret, rv);
    assert forall |k: int| 0 <= k < p.len() implies decrypt(c, t, secret, rv)[k] == p[k] by {
        let i = k / 16;
        let m = k % 16;
        if i > 0 {
            assert(c.subrange(16 * (i - 1), 16 * i) =~= cblock(p, t, secret, rv, i - 1)) by {
                assert forall |mm: int| 0 <= mm < 16 implies c.subrange(16 * (i - 1), 16 * i)[mm] == #[trigger] cblock(p, t, secret, rv, i - 1)[mm] by {
                    let kk = 16 * (i - 1) + mm;
                    assert(kk / 16 == i - 1 && kk % 16 == mm);
                }
            }
            assert(cblock(p, t, secret, rv, i)[m] == p.subrange(16 * i, 16 * i + 16)[m] ^ md5s(secret + cblock(p, t, secret, rv, i - 1))[m]);
        } else {
            assert(cblock(p, t, secret, rv, 0)[m] == p.subrange(0, 16)[m] ^ md5s(t + secret + rv)[m]);
        }
        lemma_xor_inv(p[k], dkey(c, t, secret, rv, i)[m]);
    }
    assert(decrypt(c, t, secret, rv) =~= p);
}

// hide then reveal at specification level: revealing a hidden value yields the decoding of the original payload
pub proof fn lemma_reveal_hide_core(kind: int, payload: Seq<u8>, secret: Seq<u8>, rv: Seq<u8>, lp: Seq<u8>, ap: Seq<u8>)
    requires
        0 <= kind < 65536, ap.len() == 16,
        2 + payload.len() + lp.len() <= 1008,        // the domain stated by C11
    ensures
        spec_reveal(kind, spec_hide_value(kind, payload, secret, rv, lp, ap), secret, rv) == spec_decode_avp(kind, payload), //[C11:spec.reveal_hide]
        spec_hide_value(kind, payload, secret, rv, lp, ap).len() % 16 == 0, //[C12:spec.hide.aligned]
        spec_hide_value(kind, payload, secret, rv, lp, ap).len() >= 2 + payload.len() + lp.len(), //[C12:spec.hide.covers]
        spec_hide_value(kind, payload, secret, rv, lp, ap).len() < 2 + payload.len() + lp.len() + 16, //[C12:spec.hide.minimal_padding]
{
    broadcast use group_spec_seq;
    let p = spec_hide_plain(payload, lp, ap);
    let body = enc16(6 + payload.len() as int) + payload + lp;
    let pad = (16 - body.len() % 16) % 16;
    assert(p == body + ap.take(pad));
    assert(body.len() == 2 + payload.len() + lp.len());
    assert(p.len() % 16 == 0 && p.len() >= 16);
    lemma_decrypt_encrypt(p, enc16(kind), secret, rv);
    let c = spec_hide_value(kind, payload, secret, rv, lp, ap);
    assert(c.len() == p.len());
    assert(p =~= enc16(6 + payload.len() as int) + (payload + lp + ap.take(pad)));
    assert(be16(p) == 6 + payload.len());
    assert(p.skip(2).take(payload.len() as int) =~= payload);
}

// ---- C04: data messages survive encode then decode --------------------------------------------------------------
pub open spec fn data_encodable(d: DataV, total: int) -> bool {
    &&& d.data.len() > 0
    &&& 0 <= d.tunnel < 65536 && 0 <= d.session < 65536
    &&& (d.ns_nr is Some ==> 0 <= d.ns_nr->Some_0.0 < 65536 && 0 <= d.ns_nr->Some_0.1 < 65536)
    &&& (d.offset is Some ==> 0 <= d.offset->Some_0 <= d.data.len() - 1 && d.offset->Some_0 < 65536)
    &&& (d.length is Some ==> d.length->Some_0 == total && total < 65536)
}
pub proof fn lemma_data_roundtrip(d: DataV)
    requires data_encodable(d, spec_enc_data(d, 2).len() as int),
    ensures ({
        let e = spec_enc_data(d, 2);
        let n: int = match d.offset { Some(o) => o, None => 0 };
        let r = spec_message(e, true, true, true);
        r is Some && r->Some_0.1.len() == 0 && r->Some_0.0 is Data
        && data_eq(r->Some_0.0->Data_0, DataV { prio: d.prio, length: d.length, tunnel: d.tunnel, session: d.session, ns_nr: d.ns_nr, offset: None, data: d.data.skip(n) })
    }), //[C04:spec.data.roundtrip]
{
    broadcast use group_spec_seq;
    let w = spec_flag_word(false, d.length is Some, d.ns_nr is Some, d.offset is Some, d.prio, 2);
    lemma_flag_word(false, d.length is Some, d.ns_nr is Some, d.offset is Some, d.prio, 2);
    let e = spec_enc_data(d, 2);
    let b0 = e.skip(2);
    let t_len = match d.length { Some(l) => enc16(l), None => Seq::<u8>::empty() };
    let t_ns = match d.ns_nr { Some(p) => enc16(p.0) + enc16(p.1), None => Seq::<u8>::empty() };
    let t_off = match d.offset { Some(o) => enc16(o), None => Seq::<u8>::empty() };
    let tail3 = t_off + d.data;
    let tail2 = t_ns + tail3;
    let tail1 = enc16(d.tunnel) + (enc16(d.session) + tail2);
    assert(e == enc16(w) + (t_len + tail1));
    assert(b0 =~= t_len + tail1);
    let b1 = if d.length is Some { b0.skip(2) } else { b0 };
    assert(b1 =~= tail1);
    assert(b1.skip(2) =~= enc16(d.session) + tail2);
    let b2 = b1.skip(2).skip(2);
    assert(b2 =~= tail2);
    let b3 = if d.ns_nr is Some { b2.skip(2).skip(2) } else { b2 };
    if d.ns_nr is Some {
        let pr = d.ns_nr->Some_0;
        assert(tail2 =~= enc16(pr.0) + (enc16(pr.1) + tail3));
        assert(b2.skip(2) =~= enc16(pr.1) + tail3);
    }
    assert(b3 =~= tail3);
    let b4 = if d.offset is Some { b3.skip(2) } else { b3 };
    assert(b4 =~= d.data);
    let n: int = match d.offset { Some(o) => o, None => 0 };
    assert(b4.skip(n).take(d.data.len() - n) =~= d.data.skip(n));
    assert(b4.skip(n).skip(d.data.len() - n) =~= Seq::<u8>::empty());
    // the flag word and every field read back
    assert(be16(e) == w);
    assert(e.len() == 2 + b0.len());
    let need: int = 4 + (if d.length is Some { 2int } else { 0 }) + (if d.ns_nr is Some { 4int } else { 0 }) + (if d.offset is Some { 2int } else { 0 });
    assert(b0.len() == need + d.data.len());
    if d.length is Some { assert(be16(b0) == d.length->Some_0); }
    assert(be16(b1) == d.tunnel);
    assert(be16(b1.skip(2)) == d.session);
    if d.ns_nr is Some {
        assert(be16(b2) == d.ns_nr->Some_0.0);
        assert(be16(b2.skip(2)) == d.ns_nr->Some_0.1);
    }
    if d.offset is Some { assert(be16(b3) == d.offset->Some_0); }
    let r = spec_data(w, b0);
    assert(r is Some);
    assert(r->Some_0.1 =~= Seq::<u8>::empty());
    assert(data_eq(r->Some_0.0, DataV { prio: d.prio, length: d.length, tunnel: d.tunnel, session: d.session, ns_nr: d.ns_nr, offset: None, data: d.data.skip(n) }));
    assert(spec_message(e, true, true, true) == Some((MsgV::Data(r->Some_0.0), r->Some_0.1)));
}


// ---- C03: AVP records, lists and control messages survive encode then decode ----------------------------------
pub open spec fn avp_encodable(v: AvpV) -> bool { spec_payload_ok(v) && avp_fits(v) && 0 <= v.kind < 65536 }
pub open spec fn oks(l: Seq<AvpV>) -> Seq<RecV> { Seq::new(l.len(), |i: int| RecV::Ok(l[i])) }

pub proof fn lemma_avp_record(v: AvpV, rest: Seq<u8>)
    requires avp_encodable(v),
    ensures spec_avp_list(spec_enc_avp(v) + rest) == seq![RecV::Ok(v)] + spec_avp_list(rest), //[C03,C08:spec.avp_record.roundtrip]
{
    broadcast use group_spec_seq;
    let payload = spec_payload_enc(v);
    let body = enc16(v.kind) + payload;
    let len: int = 4 + body.len() as int;
    assert(len == 6 + payload.len());
    let h: int = if v.hidden { 2 } else { 0 };
    let o0 = (((len / 256) % 4) * 64 + 1 + h) as u8;
    let o1 = (len % 256) as u8;
    let e = spec_enc_avp(v);
    assert(e == seq![o0, o1] + (enc16(0) + body));
    let s = e + rest;
    assert(e.len() == len);
    assert(s[0] == o0 && s[1] == o1);
    assert(o0 as int == ((len / 256) % 4) * 64 + 1 + h);
    assert(hdr_len(s) == len);
    assert(hdr_hidden(s) == v.hidden);
    assert(s.skip(2) =~= enc16(0) + (body + rest));
    assert(s.skip(2).skip(2) =~= enc16(v.kind) + (payload + rest));
    assert(s.skip(6) =~= payload + rest) by { assert(s.skip(6) =~= s.skip(2).skip(2).skip(2)); }
    assert(s.skip(6).take(len - 6) =~= payload);
    assert(s.skip(6).skip(len - 6) =~= rest);
    if v.hidden {
        assert(hidden_view(v.kind, payload) == v) by { assert(avp_eq(hidden_view(v.kind, payload), v)); }
    } else {
        lemma_payload_roundtrip(v);
    }
}
pub proof fn lemma_enc_avps_cons(l: Seq<AvpV>)
    requires l.len() > 0,
    ensures spec_enc_avps(l) == spec_enc_avp(l[0]) + spec_enc_avps(l.skip(1)),
    decreases l.len(),
{
    if l.len() == 1 {
        assert(l.drop_last() =~= Seq::<AvpV>::empty());
        assert(l.skip(1) =~= Seq::<AvpV>::empty());
        assert(spec_enc_avps(l) =~= spec_enc_avp(l[0]) + spec_enc_avps(l.skip(1)));
    } else {
        lemma_enc_avps_cons(l.drop_last());
        assert(l.drop_last().skip(1) =~= l.skip(1).drop_last());
        assert(l.skip(1).last() == l.last());
        assert(l.drop_last()[0] == l[0]);
        assert(spec_enc_avps(l) =~= spec_enc_avp(l[0]) + spec_enc_avps(l.skip(1)));
    }
}
pub proof fn lemma_avp_list_roundtrip(l: Seq<AvpV>)
    requires forall |i: int| 0 <= i < l.len() ==> avp_encodable(#[trigger] l[i]),
    ensures spec_avp_list(spec_enc_avps(l)) == oks(l), //[C03:spec.avp_list.roundtrip]
    decreases l.len(),
{
    if l.len() == 0 {
        assert(spec_avp_list(spec_enc_avps(l)) =~= oks(l));
    } else {
        lemma_enc_avps_cons(l);
        let t = l.skip(1);
        assert forall |i: int| 0 <= i < t.len() implies avp_encodable(#[trigger] t[i]) by { assert(t[i] == l[i + 1]); }
        lemma_avp_list_roundtrip(t);
        lemma_avp_record(l[0], spec_enc_avps(t));
        assert(seq![RecV::Ok(l[0])] + oks(t) =~= oks(l));
    }
}
// concatenation of well-delimited records (C08): decoding r ++ rest = decoding of the record, then of the rest
pub proof fn lemma_avp_list_concat(l: Seq<AvpV>, rest: Seq<u8>)
    requires forall |i: int| 0 <= i < l.len() ==> avp_encodable(#[trigger] l[i]),
    ensures spec_avp_list(spec_enc_avps(l) + rest) == oks(l) + spec_avp_list(rest), //[C08:spec.avp_list.concat]
    decreases l.len(),
{
    if l.len() == 0 {
        assert(spec_enc_avps(l) + rest =~= rest);
        assert(oks(l) + spec_avp_list(rest) =~= spec_avp_list(rest));
    } else {
        lemma_enc_avps_cons(l);
        let t = l.skip(1);
        assert forall |i: int| 0 <= i < t.len() implies avp_encodable(#[trigger] t[i]) by { assert(t[i] == l[i + 1]); }
        lemma_avp_list_concat(t, rest);
        lemma_avp_record(l[0], spec_enc_avps(t) + rest);
        assert(spec_enc_avps(l) + rest =~= spec_enc_avp(l[0]) + (spec_enc_avps(t) + rest));
        assert(seq![RecV::Ok(l[0])] + (oks(t) + spec_avp_list(rest)) =~= oks(l) + spec_avp_list(rest));
    }
}
pub open spec fn control_encodable(m: CtlV) -> bool {
    &&& control_fits(m)
    &&& (forall |i: int| 0 <= i < m.avps.len() ==> avp_encodable(#[trigger] m.avps[i]))
    &&& (m.avps.len() > 0 ==> m.avps[0].kind == 0 && !m.avps[0].hidden)
    &&& 0 <= m.tunnel < 65536 && 0 <= m.session < 65536 && 0 <= m.ns < 65536 && 0 <= m.nr < 65536
}
pub proof fn lemma_control_roundtrip(m: CtlV)
    requires control_encodable(m),
    ensures ({
        let e = spec_enc_control(m, 2);
        let r = spec_message(e, true, true, true);
        r is Some && r->Some_0.1.len() == 0 && r->Some_0.0 is Control
        && ctl_eq(r->Some_0.0->Control_0, CtlV { length: e.len() as int, tunnel: m.tunnel, session: m.session, ns: m.ns, nr: m.nr, avps: m.avps })
    }), //[C03:spec.control.roundtrip]
{
    broadcast use group_spec_seq;
    let w = spec_flag_word(true, true, true, false, false, 2);
    lemma_flag_word(true, true, true, false, false, 2);
    let body = spec_enc_avps(m.avps);
    let e = spec_enc_control(m, 2);
    let t4 = enc16(m.nr) + body;
    let t3 = enc16(m.ns) + t4;
    let t2 = enc16(m.session) + t3;
    let t1 = enc16(m.tunnel) + t2;
    let t0 = enc16(12 + body.len() as int) + t1;
    assert(e == enc16(w) + t0);
    assert(e.len() == 12 + body.len());
    let b = e.skip(2);
    assert(b =~= t0);
    assert(b.skip(2) =~= t1);
    assert(b.skip(2).skip(2) =~= t2);
    assert(b.skip(2).skip(2).skip(2) =~= t3);
    assert(b.skip(2).skip(2).skip(2).skip(2) =~= t4);
    assert(b.skip(2).skip(2).skip(2).skip(2).skip(2) =~= body);
    assert(be16(e) == w);
    assert(be16(b) == 12 + body.len());
    assert(body.take(body.len() as int) =~= body);
    assert(body.skip(body.len() as int) =~= Seq::<u8>::empty());
    lemma_avp_list_roundtrip(m.avps);
    let l = oks(m.avps);
    assert(recs_all_ok(l));
    assert(recs_values(l) =~= m.avps);
    if m.avps.len() > 0 { assert(rec_is_message_type(l[0])); }
    assert(spec_tail_ok(l));
    let r = spec_control(w, true, b);
    assert(r is Some);
}


// ---- C10: what the decoder accepts is inside the encodable domain, so one re-encoding reaches the fixed point ----
pub proof fn lemma_hdr_len_range(s: Seq<u8>)
    requires s.len() >= 2,
    ensures 0 <= hdr_len(s) <= 1023,
{ }
pub proof fn lemma_list_values_encodable(s: Seq<u8>)
    requires recs_all_ok(spec_avp_list(s)),
    ensures
        forall |i: int| 0 <= i < recs_values(spec_avp_list(s)).len() ==> avp_encodable(#[trigger] recs_values(spec_avp_list(s))[i]), //[C10:spec.avp_list.decoded_is_encodable]
        spec_enc_avps(recs_values(spec_avp_list(s))).len() <= s.len(), //[C10:spec.avp_list.reencoding_not_longer]
    decreases s.len(),
{
    broadcast use group_spec_seq;
    let l = spec_avp_list(s);
    if s.len() < 6 {
        assert(recs_values(l) =~= Seq::<AvpV>::empty());
    } else {
        let len = hdr_len(s);
        lemma_hdr_len_range(s);
        if len < 6 || len > s.len() {
            assert(l[0] is Err);
            assert(false);
        } else {
            let payload = s.skip(6).take(len - 6);
            let rest_s = s.skip(6).skip(len - 6);
            let rest = spec_avp_list(rest_s);
            let this = l[0];
            assert(l =~= seq![this] + rest);
            assert(recs_all_ok(rest)) by {
                assert forall |i: int| 0 <= i < rest.len() implies (#[trigger] rest[i]) is Ok by { assert(l[i + 1] == rest[i]); }
            }
            lemma_list_values_encodable(rest_s);
            assert(this is Ok);
            let v = this->Ok_0;
            let kind = be16(s.skip(2).skip(2));
            assert(0 <= kind < 65536);
            assert(be16(s.skip(2)) == 0);
            if hdr_hidden(s) {
                assert(v == hidden_view(kind, payload));
                assert(avp_encodable(v));
                assert(spec_payload_enc(v).len() == payload.len());
            } else {
                assert(spec_kind_assigned(kind));
                assert(spec_payload_dec(kind, payload) == Some(v));
                lemma_payload_decoded_ok(kind, payload);
                assert(avp_encodable(v));
            }
            let vs = recs_values(l);
            let rvs = recs_values(rest);
            assert(vs =~= seq![v] + rvs);
            assert(vs.skip(1) =~= rvs);
            lemma_enc_avps_cons(vs);
            assert(spec_enc_avp(v).len() == 6 + spec_payload_enc(v).len());
            assert forall |i: int| 0 <= i < vs.len() implies avp_encodable(#[trigger] vs[i]) by {
                if i > 0 { assert(vs[i] == rvs[i - 1]); }
            }
        }
    }
}
pub proof fn lemma_control_decoded_is_encodable(w: int, u: bool, b: Seq<u8>)
    requires spec_control(w, u, b) is Some,
    ensures
        control_encodable(spec_control(w, u, b)->Some_0.0), //[C10:spec.control.decoded_is_encodable]
{
    broadcast use group_spec_seq;
    let l = spec_control_list(w, u, b)->Some_0;
    let length = be16(b);
    let body = b.skip(2).skip(2).skip(2).skip(2).skip(2);
    lemma_list_values_encodable(body.take(length - 12));
    let m = spec_control(w, u, b)->Some_0.0;
    assert(m.avps == recs_values(l));
    assert(body.take(length - 12).len() == length - 12);
    if l.len() > 0 { assert(rec_is_message_type(l[0])); assert(m.avps[0] == l[0]->Ok_0); }
    assert forall |i: int| 0 <= i < m.avps.len() implies avp_fits(#[trigger] m.avps[i]) by { assert(avp_encodable(m.avps[i])); }
}
// C10 for control messages: the decoded value re-encodes to octets that decode (strictly) to the same value up to
// Length, and encoding that value again gives the same octets (spec_enc_control does not read m.length)
pub proof fn lemma_control_fixed_point(w: int, u: bool, b: Seq<u8>)
    requires spec_control(w, u, b) is Some,
    ensures ({
        let m = spec_control(w, u, b)->Some_0.0;
        let e = spec_enc_control(m, 2);
        let r = spec_message(e, true, true, true);
        r is Some && r->Some_0.0 is Control
        && ctl_eq(r->Some_0.0->Control_0, CtlV { length: e.len() as int, tunnel: m.tunnel, session: m.session, ns: m.ns, nr: m.nr, avps: m.avps })
        && spec_enc_control(r->Some_0.0->Control_0, 2) == e
    }), //[C10:spec.control.fixed_point]
{
    broadcast use group_spec_seq;
    lemma_control_decoded_is_encodable(w, u, b);
    let m = spec_control(w, u, b)->Some_0.0;
    lemma_control_roundtrip(m);
    let e = spec_enc_control(m, 2);
    let r = spec_message(e, true, true, true);
    let m2 = r->Some_0.0->Control_0;
    assert(m2.avps =~= m.avps);
}
// C10 for data messages without an offset field
pub proof fn lemma_data_fixed_point(w: int, b: Seq<u8>)
    requires spec_data(w, b) is Some, !fw_o(w),
    ensures ({
        let d = spec_data(w, b)->Some_0.0;
        let e = spec_enc_data(d, 2);
        let r = spec_message(e, true, true, true);
        r is Some && r->Some_0.0 is Data && data_eq(r->Some_0.0->Data_0, d) && spec_enc_data(r->Some_0.0->Data_0, 2) == e
    }), //[C10:spec.data.fixed_point]
{
    broadcast use group_spec_seq;
    let d = spec_data(w, b)->Some_0.0;
    let e = spec_enc_data(d, 2);
    assert(d.offset is None);
    let need: int = 4 + (if fw_l(w) { 2int } else { 0 }) + (if fw_s(w) { 4int } else { 0 });
    assert(e.len() == 2 + need + d.data.len());
    assert(data_encodable(d, e.len() as int));
    lemma_data_roundtrip(d);
    assert(d.data.skip(0) =~= d.data);
    let d2 = spec_message(e, true, true, true)->Some_0.0->Data_0;
    assert(d2.data =~= d.data);
}

} // verus!
} // mod vf_spec
