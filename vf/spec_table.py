"""The specification table (DESIGN.md Appendix B), written from RFC 2661 §3.2, §4.4.1-§4.4.6 and the
crate's *documented* conventions.  It never reads /repo: attribute numbers, code points, field order
and widths below are typed from the RFC.  Only API vocabulary (Rust type / field / variant names) is
shared with the code, so that views can be stated.

Prints (i) Verus spec functions (`generated_spec`), (ii) sidecar contracts of the per-type codecs
(`generated_sidecar`), (iii) plain-data tables used by the Kani harness printer and the replay tool.
"""

ENUMS = {
    # name: (rust enum path, [(variant, rfc code)])
    'error_type': ('crate::avp::types::result_code::ErrorType', [
        ('Ok', 0), ('NoControlConnectionExists', 1), ('WrongLength', 2), ('OutOfRangeOrBadReserved', 3),
        ('InsufficientResources', 4), ('InvalidSessionId', 5), ('Generic', 6), ('TryAnotherDestination', 7),
        ('UnknownMandatoryAvp', 8)]),
    'proxy_authen_type': ('crate::avp::types::ProxyAuthenType', [
        ('Reserved', 0), ('TextualUserNamePasswordExchange', 1), ('PppChap', 2), ('PppPap', 3),
        ('NoAuthentication', 4), ('MicrosoftChapVersion1', 5)]),
    'stop_ccn_code': ('crate::avp::types::result_code::StopCcnCode', [
        ('Reserved', 0), ('GeneralRequestToClearControlConnection', 1), ('GeneralError', 2),
        ('ControlChannelAlreadyExists', 3), ('RequesterNotAuthorizedToEstablishControlChannel', 4),
        ('RequesterProtocolVersionUnsupported', 5), ('RequesterShutdown', 6), ('FsmError', 7)]),
    'cdn_code': ('crate::avp::types::result_code::CdnCode', [
        ('Reserved', 0), ('CallDisconnectedLossOfCarrier', 1), ('CallDisconnectedWithErrorCode', 2),
        ('CallDisconnectedAdministrative', 3), ('CallFailedTemporarilyUnavailable', 4),
        ('CallFailedPermanentlyUnavailable', 5), ('InvalidDestination', 6), ('CallFailedNoCarrier', 7),
        ('CallFailedBusySignal', 8), ('CallFailedNoDialTone', 9), ('CallEstablishTimeout', 10),
        ('CallNoFramingDetected', 11)]),
    'message_type': ('crate::avp::types::MessageType', [
        ('StartControlConnectionRequest', 1), ('StartControlConnectionReply', 2),
        ('StartControlConnectionConnected', 3), ('StopControlConnectionNotification', 4), ('Hello', 6),
        ('OutgoingCallRequest', 7), ('OutgoingCallReply', 8), ('OutgoingCallConnected', 9),
        ('IncomingCallRequest', 10), ('IncomingCallReply', 11), ('IncomingCallConnected', 12),
        ('CallDisconnectNotify', 14), ('WanErrorNotify', 15), ('SetLinkInfo', 16)]),
}

# layout items:
#   ('int', nbytes, view)            big-endian unsigned integer -> next i-slot
#   ('enum', enum_name, view)        u16 restricted to the enum's code points -> next i-slot (the code)
#   ('res', n)                       n reserved octets: ignored on decode, zero on encode
#   ('arr', n, view)                 exactly n octets -> next b-slot
#   ('rest', view)                   one or more octets up to the end of the AVP -> next b-slot
#   ('utf8', view)                   the same, valid UTF-8 (view = the string's octets)
#   ('optutf8', view_is_some, view)  absent iff no octet remains; n = 1 when present
# `view` is a Verus spec expression over `self` giving the slot's value (int or Seq<u8>).
U16 = lambda f: ('int', 2, 'self.%s as int' % f)
U32 = lambda f: ('int', 4, 'self.%s as int' % f)
VEC = lambda f: ('rest', 'self.%s@' % f)
STR = lambda f: ('utf8', 'chars_bytes(self.%s@)' % f)

KINDS = [
    # (rfc number, AVP variant == Rust type name, file stem under avp/types, private_fields, layout, error on bad enum)
    (0, 'MessageType', 'message_type', False, [('enum', 'message_type', 'spec_message_type_code(*self) as int')]),
    (2, 'ProtocolVersion', 'protocol_version', False, [('int', 1, 'self.version as int'), ('int', 1, 'self.revision as int')]),
    (3, 'FramingCapabilities', 'framing_capabilities', True, [('int', 4, 'self.raw() as int')]),
    (4, 'BearerCapabilities', 'bearer_capabilities', True, [('int', 4, 'self.raw() as int')]),
    (5, 'TieBreaker', 'tie_breaker', False, [('int', 8, 'self.value as int')]),
    (6, 'FirmwareRevision', 'firmware_revision', False, [U16('value')]),
    (7, 'HostName', 'host_name', False, [VEC('value')]),
    (8, 'VendorName', 'vendor_name', False, [STR('value')]),
    (9, 'AssignedTunnelId', 'assigned_tunnel_id', False, [U16('value')]),
    (10, 'ReceiveWindowSize', 'receive_window_size', False, [U16('value')]),
    (11, 'Challenge', 'challenge', False, [VEC('value')]),
    (12, 'Q931CauseCode', 'q931_cause_code', False,
     [U16('cause_code'), ('int', 1, 'self.cause_msg as int'),
      ('optutf8', 'self.advisory is Some', 'chars_bytes(self.advisory->Some_0@)')]),
    (13, 'ChallengeResponse', 'challenge_response', False, [('arr', 16, 'self.value@')]),
    (14, 'AssignedSessionId', 'assigned_session_id', False, [U16('value')]),
    (15, 'CallSerialNumber', 'call_serial_number', False, [U32('value')]),
    (16, 'MinimumBps', 'minimum_bps', False, [U32('value')]),
    (17, 'MaximumBps', 'maximum_bps', False, [U32('value')]),
    (18, 'BearerType', 'bearer_type', True, [('int', 4, 'self.raw() as int')]),
    (19, 'FramingType', 'framing_type', True, [('int', 4, 'self.raw() as int')]),
    (21, 'CalledNumber', 'called_number', False, [STR('value')]),
    (22, 'CallingNumber', 'calling_number', False, [STR('value')]),
    (23, 'SubAddress', 'sub_address', False, [STR('value')]),
    (24, 'TxConnectSpeed', 'tx_connect_speed', False, [U32('value')]),
    (25, 'PhysicalChannelId', 'physical_channel_id', False, [('arr', 4, 'self.value@')]),
    (26, 'InitialReceivedLcpConfReq', 'initial_received_lcp_conf_req', False, [VEC('value')]),
    (27, 'LastSentLcpConfReq', 'last_sent_lcp_conf_req', False, [VEC('value')]),
    (28, 'LastReceivedLcpConfReq', 'last_received_lcp_conf_req', False, [VEC('value')]),
    (29, 'ProxyAuthenType', 'proxy_authen_type', False, [('enum', 'proxy_authen_type', 'spec_proxy_authen_type_code(*self) as int')]),
    (30, 'ProxyAuthenName', 'proxy_authen_name', False, [VEC('value')]),
    (31, 'ProxyAuthenChallenge', 'proxy_authen_challenge', False, [VEC('value')]),
    (32, 'ProxyAuthenId', 'proxy_authen_id', False, [('res', 1), ('int', 1, 'self.value as int')]),
    (33, 'ProxyAuthenResponse', 'proxy_authen_response', False, [VEC('value')]),
    (34, 'CallErrors', 'call_errors', False,
     [('res', 2), U32('crc_errors'), U32('framing_errors'), U32('hardware_overruns'), U32('buffer_overruns'),
      U32('timeout_errors'), U32('alignment_errors')]),
    (35, 'Accm', 'accm', False, [('res', 2), ('arr', 4, 'self.send_accm@'), ('arr', 4, 'self.receive_accm@')]),
    (36, 'RandomVector', 'random_vector', False, [('arr', 4, 'self.value@')]),
    (37, 'PrivateGroupId', 'private_group_id', False, [VEC('value')]),
    (38, 'RxConnectSpeed', 'rx_connect_speed', False, [U32('value')]),
    (39, 'SequencingRequired', 'sequencing_required', False, []),
]
# kind 1 (ResultCode) is written by hand in speclib.rs (nested optional groups); it is listed here so
# that tables which enumerate "all kinds" include it.
# try_read bodies outside Verus (DESIGN D4, D8): decided by Kani on the real crate
EXTERNAL_TRY_READ = {'MessageType': 'phf_map! static (D4)', 'Accm': 'closure capturing &mut reader'}
RESULT_CODE = (1, 'ResultCode', 'result_code')

AVP_NAMES = {k[0]: k[1] for k in KINDS}
AVP_NAMES[1] = 'ResultCode'
ASSIGNED = sorted(AVP_NAMES)

ENC = {1: 'enc8', 2: 'enc16', 4: 'enc32', 8: 'enc64'}
DEC = {2: 'be16', 4: 'be32', 8: 'be64'}
MAXV = {1: 256, 2: 65536, 4: 4294967296, 8: 18446744073709551616}
N_I = 6
N_B = 2


def enum_specs():
    out = []
    for name, (path, variants) in ENUMS.items():
        of = 'pub open spec fn spec_%s_of(x: u16) -> Option<%s> {\n' % (name, path)
        for v, c in variants:
            of += '    if x == %d { Some(%s::%s) } else\n' % (c, path, v)
        of += '    { None }\n}\n'
        code = 'pub open spec fn spec_%s_code(e: %s) -> u16 {\n    match e {\n' % (name, path)
        for v, c in variants:
            code += '        %s::%s => %d,\n' % (path, v, c)
        code += '    }\n}\n'
        out.append(of + code)
    return '\n'.join(out)


def avpv_literal(kind, hidden, n, ints, bs):
    ints = list(ints) + ['0'] * (N_I - len(ints))
    bs = list(bs) + ['Seq::<u8>::empty()'] * (N_B - len(bs))
    return ('AvpV { kind: %s, hidden: %s, n: %s, ' % (kind, hidden, n)
            + ', '.join('i%d: %s' % (k, e) for k, e in enumerate(ints)) + ', '
            + ', '.join('b%d: %s' % (k, e) for k, e in enumerate(bs)) + ' }')


def min_len(layout):
    m = 0
    for it in layout:
        if it[0] == 'int':
            m += it[1]
        elif it[0] == 'enum':
            m += 2
        elif it[0] == 'res':
            m += it[1]
        elif it[0] == 'arr':
            m += it[1]
        elif it[0] in ('rest', 'utf8'):
            m += 1
    return m


def kind_spec(row):
    num, name, stem, priv, layout = row
    # ---- pdec
    lines = []
    ints, bs = [], []
    conds = []  # extra rejection conditions, in wire order
    cur = 'p'
    step = 0
    nexpr = '0'
    for it in layout:
        if it[0] == 'int':
            w = it[1]
            e = ('%s[0] as int' % cur) if w == 1 else '%s(%s)' % (DEC[w], cur)
            ints.append(e)
            nxt = '%s.skip(%d)' % (cur, w)
            cur = nxt
        elif it[0] == 'enum':
            e = 'be16(%s)' % cur
            conds.append('spec_%s_of(%s as u16) is None' % (it[1], e))
            ints.append(e)
            cur = '%s.skip(2)' % cur
        elif it[0] == 'res':
            cur = '%s.skip(%d)' % (cur, it[1])
        elif it[0] == 'arr':
            bs.append('%s.take(%d)' % (cur, it[1]))
            cur = '%s.skip(%d)' % (cur, it[1])
        elif it[0] == 'rest':
            bs.append(cur)
        elif it[0] == 'utf8':
            conds.append('!is_utf8(%s)' % cur)
            bs.append(cur)
        elif it[0] == 'optutf8':
            conds.append('(%s.len() > 0 && !is_utf8(%s))' % (cur, cur))
            bs.append(cur)
            nexpr = 'if %s.len() > 0 { 1 } else { 0 }' % cur
    ml = min_len(layout)
    body = 'pub open spec fn pdec_%d(p: Seq<u8>) -> Option<AvpV> {\n' % num
    body += '    if p.len() < %d { None }\n' % ml
    for c in conds:
        body += '    else if %s { None }\n' % c
    body += '    else { Some(%s) }\n}\n' % avpv_literal(num, 'false', nexpr, ints, bs)
    # ---- penc (right-nested, wire order)
    parts = []
    ii = bi = 0
    for it in layout:
        if it[0] == 'int':
            parts.append('%s(v.i%d)' % (ENC[it[1]], ii))
            ii += 1
        elif it[0] == 'enum':
            parts.append('enc16(v.i%d)' % ii)
            ii += 1
        elif it[0] == 'res':
            parts.append('seq![%s]' % ', '.join(['0u8'] * it[1]))
        elif it[0] in ('arr', 'rest', 'utf8', 'optutf8'):
            parts.append('v.b%d' % bi)
            bi += 1
    expr = 'Seq::<u8>::empty()'
    for p in reversed(parts):
        expr = '%s + (%s)' % (p, expr) if expr != 'Seq::<u8>::empty()' else p
    if not parts:
        expr = 'Seq::<u8>::empty()'
    body += 'pub open spec fn penc_%d(v: AvpV) -> Seq<u8> { %s }\n' % (num, expr)
    # ---- pok: the encodable domain (value ranges of the Rust fields + RFC constraints)
    ok = ['v.kind == %d' % num, '!v.hidden']
    ii = bi = 0
    nok = 'v.n == 0'
    for it in layout:
        if it[0] == 'int':
            ok.append('0 <= v.i%d < %d' % (ii, MAXV[it[1]]))
            ii += 1
        elif it[0] == 'enum':
            ok.append('0 <= v.i%d < 65536 && spec_%s_of(v.i%d as u16) is Some' % (ii, it[1], ii))
            ii += 1
        elif it[0] == 'arr':
            ok.append('v.b%d.len() == %d' % (bi, it[1]))
            bi += 1
        elif it[0] == 'rest':
            ok.append('v.b%d.len() > 0' % bi)
            bi += 1
        elif it[0] == 'utf8':
            ok.append('v.b%d.len() > 0 && is_utf8(v.b%d)' % (bi, bi))
            bi += 1
        elif it[0] == 'optutf8':
            nok = '(v.n == 0 || v.n == 1) && (v.n == 0 ==> v.b%d.len() == 0) && (v.n == 1 ==> v.b%d.len() > 0 && is_utf8(v.b%d))' % (bi, bi, bi)
            bi += 1
    ok.append(nok)
    for k in range(ii, N_I):
        ok.append('v.i%d == 0' % k)
    for k in range(bi, N_B):
        ok.append('v.b%d.len() == 0' % k)
    body += 'pub open spec fn pok_%d(v: AvpV) -> bool {\n    %s\n}\n' % (num, '\n    && '.join(ok))
    # ---- round trip lemma at spec level (C03/C10/C11 building block)
    body += ('pub proof fn lemma_pdec_penc_%d(v: AvpV)\n    requires pok_%d(v),\n'
             '    ensures pdec_%d(penc_%d(v)) is Some, avp_eq(pdec_%d(penc_%d(v))->Some_0, v), //[C03,C10,C11:spec.avp%d.roundtrip]\n'
             '{\n    broadcast use group_spec_seq;\n%s}\n') % (num, num, num, num, num, num, num, lemma_hints(row))
    body += ('pub proof fn lemma_pdec_ok_%d(p: Seq<u8>)\n    requires pdec_%d(p) is Some,\n'
             '    ensures pok_%d(pdec_%d(p)->Some_0), penc_%d(pdec_%d(p)->Some_0).len() <= p.len(), //[C10:spec.avp%d.decoded_is_encodable]\n'
             '{\n    broadcast use group_spec_seq;\n}\n') % (num, num, num, num, num, num, num)
    return body


def lemma_hints(row):
    num, name, stem, priv, layout = row
    return ''


def generated_spec():
    out = [enum_specs()]
    out.append('''
// Flat ghost view of an AVP value: RFC attribute number, hidden flag, and value slots in wire order.
// Unused slots are 0 / empty.  `n` counts the optional trailing groups that are present.
pub struct AvpV {
    pub kind: int, pub hidden: bool, pub n: int,
    pub i0: int, pub i1: int, pub i2: int, pub i3: int, pub i4: int, pub i5: int,
    pub b0: Seq<u8>, pub b1: Seq<u8>,
}
pub open spec fn avp_eq(a: AvpV, b: AvpV) -> bool {
    a.kind == b.kind && a.hidden == b.hidden && a.n == b.n
    && a.i0 == b.i0 && a.i1 == b.i1 && a.i2 == b.i2 && a.i3 == b.i3 && a.i4 == b.i4 && a.i5 == b.i5
    && a.b0 =~= b.b0 && a.b1 =~= b.b1
}
''')
    for row in KINDS:
        out.append(kind_spec(row))
    nums = [r[0] for r in KINDS] + [1]
    nums.sort()
    disp = 'pub open spec fn spec_payload_dec(kind: int, p: Seq<u8>) -> Option<AvpV> {\n'
    for n in nums:
        disp += '    if kind == %d { pdec_%d(p) } else\n' % (n, n)
    disp += '    { None }\n}\n'
    disp += 'pub open spec fn spec_payload_enc(v: AvpV) -> Seq<u8> {\n    if v.hidden { v.b0 } else\n'
    for n in nums:
        disp += '    if v.kind == %d { penc_%d(v) } else\n' % (n, n)
    disp += '    { Seq::<u8>::empty() }\n}\n'
    disp += 'pub open spec fn spec_payload_ok(v: AvpV) -> bool {\n    if v.hidden { pok_hidden(v) } else\n'
    for n in nums:
        disp += '    if v.kind == %d { pok_%d(v) } else\n' % (n, n)
    disp += '    { false }\n}\n'
    # error identity where the properties name it (C20): truncated -> IncompleteAVP(kind); non-UTF-8 -> InvalidUtf8(kind);
    # unknown message-type code -> UnknownMessageType(code); unknown error-type code -> InvalidResultCodeErrorType(code)
    disp += 'pub open spec fn spec_payload_err(kind: int, p: Seq<u8>) -> Option<crate::common::DecodeError> {\n'
    disp += '    if kind == 1 { perr_1(p) } else\n'
    for row in KINDS:
        num, name, stem, priv, layout = row
        ml = min_len(layout)
        if not layout:
            continue
        disp += '    if kind == %d {\n        if p.len() < %d { Some(crate::common::DecodeError::IncompleteAVP(%d)) }\n' % (num, ml, num)
        off = 0
        cur = 'p'
        for it in layout:
            if it[0] == 'enum' and it[1] == 'message_type':
                disp += '        else if spec_message_type_of(be16(%s) as u16) is None { Some(crate::common::DecodeError::UnknownMessageType(be16(%s) as u16)) }\n' % (cur, cur)
            if it[0] == 'utf8':
                disp += '        else if !is_utf8(%s) { Some(crate::common::DecodeError::InvalidUtf8(%d)) }\n' % (cur, num)
            if it[0] == 'optutf8':
                disp += '        else if %s.len() > 0 && !is_utf8(%s) { Some(crate::common::DecodeError::InvalidUtf8(%d)) }\n' % (cur, cur, num)
            if it[0] == 'int':
                cur = '%s.skip(%d)' % (cur, it[1])
            elif it[0] == 'enum':
                cur = '%s.skip(2)' % cur
            elif it[0] == 'res':
                cur = '%s.skip(%d)' % (cur, it[1])
            elif it[0] == 'arr':
                cur = '%s.skip(%d)' % (cur, it[1])
        disp += '        else { None }\n    } else\n'
    disp += '    { None }\n}\n'
    # per-kind round trip, dispatched (C03 / C10 / C11 building block)
    disp += ('pub proof fn lemma_payload_roundtrip(v: AvpV)\n    requires spec_payload_ok(v), !v.hidden,\n'
             '    ensures spec_kind_assigned(v.kind), spec_payload_dec(v.kind, spec_payload_enc(v)) == Some(v), //[C03,C10,C11:spec.payload.roundtrip]\n{\n'
             '    broadcast use lemma_avp_eq;\n')
    for n in nums:
        disp += '    if v.kind == %d { lemma_pdec_penc_%d(v); }\n' % (n, n)
    disp += '}\n'
    disp += ('pub proof fn lemma_payload_decoded_ok(kind: int, p: Seq<u8>)\n    requires spec_payload_dec(kind, p) is Some,\n'
             '    ensures spec_payload_ok(spec_payload_dec(kind, p)->Some_0), !spec_payload_dec(kind, p)->Some_0.hidden,\n'
             '        spec_payload_dec(kind, p)->Some_0.kind == kind, spec_payload_enc(spec_payload_dec(kind, p)->Some_0).len() <= p.len(), //[C10:spec.payload.decoded_is_encodable]\n{\n')
    for n in nums:
        disp += '    if kind == %d { lemma_pdec_ok_%d(p); }\n' % (n, n)
    disp += '}\n'
    disp += 'pub open spec fn spec_kind_assigned(kind: int) -> bool {\n    ' + ' || '.join('kind == %d' % n for n in nums) + '\n}\n'
    out.append(disp)
    return '\n'.join(out)


def type_sidecar(row):
    num, name, stem, priv, layout = row
    mod = 'message::avp::types::%s' % stem
    ints, bs = [], []
    nexpr = '0'
    for it in layout:
        if it[0] in ('int',):
            ints.append(it[2])
        elif it[0] == 'enum':
            ints.append(it[2])
        elif it[0] == 'arr':
            bs.append(it[2])
        elif it[0] in ('rest', 'utf8'):
            bs.append(it[1])
        elif it[0] == 'optutf8':
            bs.append('if %s { %s } else { Seq::<u8>::empty() }' % (it[1], it[2]))
            nexpr = 'if %s { 1 } else { 0 }' % it[1]
    s = '@items %s\nimpl %s {\n%s    pub open spec fn av(&self) -> AvpV {\n        %s\n    }\n}\n' % (
        mod, name, '    pub closed spec fn raw(&self) -> u32 { self.data }\n' if priv else '',
        avpv_literal(num, 'false', nexpr, ints, bs))
    s += '@impl-items %s | impl QueryableAVP for %s\n    open spec fn qv(&self) -> AvpV { self.av() }\n' % (mod, name)
    s += '@impl-items %s | impl WritableAVP for %s\n    open spec fn wv(&self) -> AvpV { self.av() }\n' % (mod, name)
    if layout:
        ml = min_len(layout)
        s += '@fn %s::%s::try_read\n@ret res\n@safety C01;C13\n' % (mod, name)
        if name in EXTERNAL_TRY_READ:
            s += '@external_body\n'
        s += '@ensures\n'
        s += '    [C05;C10,C16:avp%d.equiv.accept] res is Ok <==> pdec_%d(old(reader).rem()) is Some,\n' % (num, num)
        s += '    [C05;C10,C17:avp%d.equiv.value~avp%d.equiv.accept] res is Ok ==> avp_eq(res->Ok_0.av(), pdec_%d(old(reader).rem())->Some_0),\n' % (num, num, num)
        s += ('    [C03,C11;C10:avp%d.on_image] forall |v: AvpV| pok_%d(v) && old(reader).rem() == #[trigger] penc_%d(v)\n'
              '        ==> res is Ok && avp_eq(res->Ok_0.av(), v),\n') % (num, num, num)
        s += ('    [C20:avp%d.err_id] spec_payload_err(%d, old(reader).rem()) is Some\n'
              '        ==> res is Err && res->Err_0 == spec_payload_err(%d, old(reader).rem())->Some_0,\n' % (num, num, num))
        for it in layout:
            if it[0] in ('utf8', 'optutf8'):
                s += '@closure ~DecodeError::InvalidUtf8\n@ret r: DecodeError\n@ensures r == DecodeError::InvalidUtf8(%d)\n' % num
    s += '@fn %s::<%s as QueryableAVP>::get_length\n@safety C07;C06\n' % (mod, name)
    s += '@fn %s::<%s as WritableAVP>::write\n@safety ;C06,C09,C03\n' % (mod, name)
    return s


def avp_name_sidecar():
    # C20: the rendering table must name the kind that this attribute number decodes to
    s = '@fn message::avp::avp_name\n@ret r\n@safety C20\n@ensures\n'
    for n in ASSIGNED:
        s += '    [C20:avp_name.%d] attribute_type == %d ==> r@ == "%s"@,\n' % (n, n, AVP_NAMES[n])
    return s


def generated_sidecar():
    return '\n'.join(type_sidecar(r) for r in KINDS) + '\n' + avp_name_sidecar()


# ---------------------------------------------------------------------------------------------
# Kani twins (DESIGN 2.6 step 2b): complete, loop-free harnesses on the REAL crate for the small fixed-layout functions.
# They are run only when Verus fails an obligation of such a function; a twin that succeeds discharges the obligation
# (the Verus failure is then a proof-robustness warning, e.g. after a bit-level rewrite), a twin that fails confirms it.
def fixed_kinds():
    out = []
    for row in KINDS:
        num, name, stem, priv, layout = row
        if layout and all(it[0] in ('int', 'arr', 'res', 'enum') for it in layout) and name not in EXTERNAL_TRY_READ:
            out.append(row)
    return out


TWIN_KIND = """#[kani::proof]
#[kani::unwind(%(unwind)d)]
fn %(h)s() {
    let buf: [u8; %(cap)d] = kani::any();
    let n: usize = kani::any();
    kani::assume(n <= %(cap)d);
    let mut r = SliceReader::from(&buf[..n]);
    let res = %(name)s::try_read(&mut r);
    if n < %(ml)d {
        assert!(res == Err(DecodeError::IncompleteAVP(%(num)d)), "truncated payload is IncompleteAVP(kind)");
        assert!(r.len() == n);
    } else if !(%(accept)s) {
        assert!(res.is_err(), "unassigned code point rejected");
    } else {
        let v = res.unwrap();
        assert!(r.len() == n - %(ml)d, "consumes exactly the fixed layout");
        assert!(super::QueryableAVP::get_length(&v) == %(ml)d, "get_length is the payload size");
        let mut w = VecWriter::new();
        super::WritableAVP::write(&v, &mut w);
        let want: [u8; %(outn)d] = [0u8, %(num)du8, %(canon)s];
        assert!(w.data.len() == %(outn)d, "attribute type + payload");
        let mut i = 0;
        while i < %(outn)d { assert!(w.data[i] == want[i], "re-encodes to the octets read (reserved octets zero)"); i += 1; }
        // the decoded value is a function of the octets the layout names: decode(encode(v)) == v
        let mut r2 = SliceReader::from(&w.data[2..]);
        assert!(%(name)s::try_read(&mut r2) == Ok(v), "decode after encode returns the value");
    }
    kani::cover!(true);
}"""

TWIN_FIXED = """#[kani::proof]
fn twin_mfl() {
    let (m, h): (bool, bool) = (kani::any(), kani::any());
    let len: usize = kani::any();
    kani::assume(len <= 1023);
    let r = AVP::make_flags_and_length(m, h, len);
    assert!(r[0] as usize == ((len / 256) % 4) * 64 + (m as usize) + 2 * (h as usize));
    assert!(r[1] as usize == len % 256);
    kani::cover!(true);
}
#[kani::proof]
#[kani::should_panic]
fn twin_mfl_refuses() {
    let len: usize = kani::any();
    kani::assume(len > 1023);
    let _ = AVP::make_flags_and_length(kani::any(), kani::any(), len);
    kani::cover!(true, "vf-returned"); // must be unreachable: `should_panic` alone is existential (kani_run.py checks this)
}
#[kani::proof]
#[kani::unwind(10)]
fn twin_hdr() {
    let buf: [u8; 8] = kani::any();
    let n: usize = kani::any();
    kani::assume(n <= 8);
    let mut r = SliceReader::from(&buf[..n]);
    let res = Header::try_read(&mut r);
    if n < 6 {
        assert!(res.is_none() && r.len() == n);
    } else {
        assert!(r.len() == n - 6);
        let total = ((buf[0] as u16) / 64) * 256 + buf[1] as u16;
        match res {
            None => assert!(false, "six octets are a header"),
            Some(Err(_)) => assert!(total < 6),
            Some(Ok(h)) => {
                assert!(total >= 6);
                assert!(h.payload_length == total - 6);
                assert!(h.vendor_id == ((buf[2] as u16) << 8) | buf[3] as u16);
                assert!(h.attribute_type == ((buf[4] as u16) << 8) | buf[5] as u16);
                assert!(h.flags.is_hidden() == ((buf[0] / 2) % 2 == 1));
                assert!(h.flags.is_mandatory() == (buf[0] % 2 == 1));
            }
        }
    }
    kani::cover!(true);
}"""


def kani_twins():
    """Returns (rust source, {harness name: [function keys it discharges]})."""
    src = ['\n// ---- generated Kani twins (vf/spec_table.py) ------------------------------------------------------------']
    twins = {}
    for num, name, stem, priv, layout in fixed_kinds():
        ml = min_len(layout)
        canon = []
        enum_checks = []
        off = 0
        for it in layout:
            if it[0] == 'res':
                canon += ['0u8'] * it[1]
                off += it[1]
            elif it[0] == 'enum':
                codes = [c for _, c in ENUMS[it[1]][1]]
                enum_checks.append('(((buf[%d] as u16) << 8) | buf[%d] as u16, [%s])' % (off, off + 1, ', '.join('%du16' % c for c in codes)))
                canon += ['buf[%d]' % off, 'buf[%d]' % (off + 1)]
                off += 2
            else:
                w = it[1]
                canon += ['buf[%d]' % (off + k) for k in range(w)]
                off += w
        accept = ' && '.join('{ let (code, ok) = %s; ok.contains(&code) }' % e for e in enum_checks) or 'true'
        h = 'twin_kind_%d' % num
        src.append(TWIN_KIND % {'h': h, 'cap': ml + 2, 'ml': ml, 'num': num, 'name': name, 'accept': accept, 'outn': ml + 2,
                                'canon': ', '.join(canon), 'unwind': ml + 6})
        mod = 'message::avp::types::%s' % stem
        twins[h] = ['%s::%s::try_read' % (mod, name), '%s::<%s as WritableAVP>::write' % (mod, name),
                    '%s::<%s as QueryableAVP>::get_length' % (mod, name)]
    src.append(TWIN_FIXED)
    twins['twin_mfl'] = ['message::avp::AVP::make_flags_and_length']
    twins['twin_mfl_refuses'] = ['message::avp::AVP::make_flags_and_length']
    twins['twin_hdr'] = ['message::avp::header::Header::try_read']
    return '\n'.join(src) + '\n', twins


if __name__ == '__main__':
    print(generated_spec())
    print(generated_sidecar())
