"""Front end of the bounded concrete witness search (vf_replay search Cxx) on the real crate."""
import os
import re
import subprocess

HERE = os.path.dirname(os.path.abspath(__file__))
import witness  # noqa: E402

_cache = {}


def search(prop, names, failure, repo):
    if prop in _cache:
        return _cache[prop]
    exe, err = witness.build_replay_tool()
    if not exe:
        r = {'failing_input': None, 'search_error': 'replay tool did not build against the current tree: ' + err}
        _cache[prop] = r
        return r
    try:
        p = subprocess.run([exe, 'search', prop], capture_output=True, text=True, timeout=300)
        out = p.stdout
    except subprocess.TimeoutExpired:
        out = ''
    res = {'kind': 'bounded witness search on the real crate (vf_replay search %s)' % prop, 'failing_input': None,
           'output': out[-3000:]}
    # witnesses: `WITNESS property=.. case=.. replay=..` followed by indented expected/actual lines.  A crash-type witness
    # (PANIC / ABORT / HANG) in a DECODING case decides only the properties that are about crashes (a decoder crash
    # would otherwise be reported by every property whose search feeds it that input); a panic while ENCODING
    # inside the encodable domain counts for the encoder-side property that observed it.
    crash_props = ('C01', 'C02', 'C13', 'C18')
    blocks = re.split(r'(?m)^(?=WITNESS property=)', out)
    for bl in blocks:
        m = re.match(r'WITNESS property=%s case=(\S+) replay=(.*)' % prop, bl)
        if not m:
            continue
        ma = re.search(r'(?m)^\s+actual:\s*(.*)$', bl)
        crash = bool(ma and re.match(r'(PANIC|ABORT|HANG)', ma.group(1)))
        encoder_side = bool(re.match(r'(encode-avps|encode-messages|hide|writer-ops|bitmask)\b', m.group(2).strip()))
        if crash and prop not in crash_props and not encoder_side:
            res.setdefault('discounted_crash_witnesses', []).append(m.group(1))
            continue
        args = m.group(2).strip().split()
        res['failing_input'] = {'case': m.group(1), 'replay': m.group(2).strip(), 'detail': bl.strip()[:1500]}
        res['replay_args'] = args
        rr = witness.run_replay(args)
        res['real_code_behaviour'] = rr.get('output') or rr.get('error')
        break
    _cache[prop] = res
    return res


def replay_for_harness(name, values, repo):
    return None
