"""Front end of the bounded concrete witness search (vf_replay search Cxx) on the real crate."""
import os
import re
import subprocess

HERE = os.path.dirname(os.path.abspath(__file__))
import witness  # noqa: E402

_cache = {}


def config_dependent(repo):
    """Does the non-test source contain code that differs between debug and release builds?"""
    src = os.path.join(repo, 'src')
    for root, _, fs in os.walk(src):
        for fn in fs:
            if fn.endswith('.rs') and fn != 'tests.rs' and '/tests' not in root:
                t = open(os.path.join(root, fn)).read()
                if re.search(r'debug_assert|cfg\s*!?\s*\(\s*(not\s*\(\s*)?debug_assertions|overflow_checks', t):
                    return True
    return False


def search(prop, names, failure, repo):
    if prop in _cache:
        return _cache[prop]
    profiles = ['debug'] + (['release'] if config_dependent(repo) else [])
    out = ''
    for profile in profiles:
        exe, err = witness.build_replay_tool(profile)
        if not exe:
            r = {'failing_input': None, 'search_error': 'replay tool (%s) did not build against the current tree: %s' % (profile, err)}
            _cache[prop] = r
            return r
        try:
            p = subprocess.run([exe, 'search', prop], capture_output=True, text=True, timeout=300)
            o = p.stdout
        except subprocess.TimeoutExpired:
            o = 'SEARCH-TIMEOUT'
        out += ('' if profile == 'debug' else '\n[release profile: built without debug assertions / overflow checks]\n') + o
        if re.search(r'^WITNESS property=%s ' % prop, o, flags=re.M) and profile == 'debug':
            break
    res = {'kind': 'bounded witness search on the real crate (vf_replay search %s)' % prop, 'failing_input': None,
           'output': out[-3000:]}
    # witnesses: `WITNESS property=.. case=.. replay=..` followed by indented expected/actual lines.  A crash-type witness
    # (PANIC / ABORT / HANG) in a DECODING case decides only the properties that are about crashes (a decoder crash
    # would otherwise be reported by every property whose search feeds it that input); a panic while ENCODING
    # inside the encodable domain counts for the encoder-side property that observed it.
    crash_props = ('C01', 'C02', 'C13', 'C18')
    blocks = re.split(r'(?m)^(?=WITNESS property=)', out)
    for bl in blocks:
        m = re.match(r'WITNESS property=%s case=(\S+) replay=(.*)' % prop, bl)
        if not m:
            continue
        if 'VF-VIEW' in bl or 'VF-ORACLE' in bl:
            # the search's own oracle could not read a value (e.g. a hand-written Debug impl): not a witness
            res.setdefault('oracle_failures', []).append(m.group(1))
            continue
        mio = re.search(r'actual:\s*(\d+) octet\(s\) on stdout, (\d+) on stderr', bl)
        if prop == 'C19' and not (mio and int(mio.group(1)) > 0) and 'the same result' not in bl:
            # octets on stderr from a crashing child are the runtime's panic/abort message: C01's business
            c01 = search('C01', names, failure, repo)
            if c01 and c01.get('failing_input'):
                res.setdefault('discounted_crash_witnesses', []).append(m.group(1))
                continue
        ma = re.search(r'(?m)^\s+actual:\s*(.*)$', bl)
        crash = bool(ma and re.match(r'(PANIC|ABORT|HANG)', ma.group(1)))
        encoder_side = bool(re.match(r'(encode-avps|encode-messages|hide|writer-ops|bitmask)\b', m.group(2).strip()))
        if crash and encoder_side and prop in ('C08', 'C09'):
            # relative properties: a refusal that also happens when encoding alone is not theirs
            c06 = search('C06', names, failure, repo)
            if c06 and c06.get('failing_input'):
                res.setdefault('discounted_crash_witnesses', []).append(m.group(1))
                continue
        # C20 promises that rendering any decode error as text succeeds: a panic while rendering is C20's own
        render_side = prop == 'C20' and m.group(2).strip().startswith('error-string')
        if crash and prop not in crash_props and not encoder_side and not render_side:
            # cross-talk guard: a decoder crash is C01's.  If the decoder's own crash search finds nothing, the crash
            # happened in this property's scenario (e.g. while re-encoding a decoded value) and counts here.
            # A panic while encoding inside the size limits counts for the properties that promise an encoding there;
            # C09 (position independence) only if encoding alone is fine (C06's search finds nothing).
            accept = False
            if prop in ('C03', 'C04', 'C06', 'C07', 'C10', 'C11', 'C12'):
                c01 = search('C01', names, failure, repo)
                accept = not (c01 and c01.get('failing_input'))
            if not accept:
                res.setdefault('discounted_crash_witnesses', []).append(m.group(1))
                continue
        args = m.group(2).strip().split()
        res['failing_input'] = {'case': m.group(1), 'replay': m.group(2).strip(), 'detail': bl.strip()[:1500]}
        res['replay_args'] = args
        # the witness belongs to the release-profile run if it appears after the release marker
        prof = 'release' if '[release profile' in out and out.index(bl[:60]) > out.index('[release profile') else 'debug'
        res['build_profile'] = prof
        rr = witness.run_replay(args, prof)
        res['real_code_behaviour'] = rr.get('output') or rr.get('error')
        break
    _cache[prop] = res
    return res


def replay_for_harness(name, values, repo):
    return None
