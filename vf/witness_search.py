"""Front end of the bounded concrete witness search (vf_replay search Cxx) on the real crate."""
import os
import re
import subprocess

HERE = os.path.dirname(os.path.abspath(__file__))
import witness  # noqa: E402

_cache = {}


def search(prop, names, failure, repo):
    if prop in _cache:
        return _cache[prop]
    exe, err = witness.build_replay_tool()
    if not exe:
        r = {'failing_input': None, 'search_error': 'replay tool did not build against the current tree: ' + err}
        _cache[prop] = r
        return r
    try:
        p = subprocess.run([exe, 'search', prop], capture_output=True, text=True, timeout=300)
        out = p.stdout
    except subprocess.TimeoutExpired:
        out = ''
    res = {'kind': 'bounded witness search on the real crate (vf_replay search %s)' % prop, 'failing_input': None,
           'output': out[-3000:]}
    m = re.search(r'^WITNESS property=%s case=(\S+) replay=(.*)$' % prop, out, flags=re.M)
    if m:
        args = m.group(2).strip().split()
        res['failing_input'] = {'case': m.group(1), 'replay': m.group(2).strip()}
        res['replay_args'] = args
        rr = witness.run_replay(args)
        res['real_code_behaviour'] = rr.get('output') or rr.get('error')
    _cache[prop] = res
    return res


def replay_for_harness(name, values, repo):
    return None
