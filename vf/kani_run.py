"""Kani side of the runner: builds a scratch copy of /repo with the harness module added, runs the harnesses of
the requested properties and parses the results."""
import os
import re
import shutil
import subprocess
import time
import concurrent.futures as cf

HERE = os.path.dirname(os.path.abspath(__file__))
import sys
sys.path.insert(0, HERE)

# name -> (properties, complete?, bound text, what it decides, crate function(s) it discharges, tier)
H = {}


def reg(name, props, what, fn=None, complete=True, bound=None, tier='quick', secondary=()):
    H[name] = {'name': name, 'props': props, 'secondary': list(secondary), 'complete': complete, 'bound': bound, 'what': what,
               'fn': fn, 'tier': tier}


reg('msg_flags_type_length_sequence', ['C05'], 'message::flags::Flags::{get_type,has_length,has_ns_nr} == arithmetic flag-word predicates, all 65536 words',
    fn='message::flags::Flags::{get_type,has_length,has_ns_nr,get_bit}', secondary=['C14', 'C04', 'C03', 'C10', 'C08'])
reg('msg_flags_offset_priority_version', ['C05', 'C14'], 'Flags::{has_offset,is_prioritized,get_version} == arithmetic flag-word predicates, all 65536 words',
    fn='message::flags::Flags::{has_offset,is_prioritized,get_version,get_bit}', secondary=['C04', 'C10', 'C20'])
reg('msg_flags_reserved_bits_ok', ['C14', 'C05'], 'reserved_bits_ok == bits {0,1,2,3,10,11,13} clear, all 65536 words',
    fn='message::flags::Flags::reserved_bits_ok')
reg('msg_flags_new', ['C06'], 'Flags::new(..).write == spec_flag_word, all type x bool^4 x version<=15',
    fn='message::flags::Flags::{new,set_bit,set_type,set_length,set_ns_nr,set_offset,set_prioritized,set_version}', secondary=['C04', 'C03', 'C10'])
reg('msg_flags_new_refuses_wide_version', ['C06'], 'Flags::new panics for version > 15 (guard reading)', fn='message::flags::Flags::set_version')
reg('avp_flags_all', ['C05'], 'avp::header::Flags::{from,is_mandatory,is_hidden} on all 256 octets',
    fn='message::avp::header::flags::Flags::{from,get_bit,is_mandatory,is_hidden}', secondary=['C12', 'C03', 'C11', 'C10'])
reg('enum_error_type', ['C16'], 'num_enum TryFrom/Into for ErrorType over all 65536 codes', fn='num_enum derive ErrorType', secondary=['C05', 'C06', 'C03', 'C20'])
reg('enum_proxy_authen_type', ['C16'], 'num_enum TryFrom/Into for ProxyAuthenType over all 65536 codes', fn='num_enum derive ProxyAuthenType', secondary=['C05', 'C06', 'C03'])
reg('enum_stop_ccn_code', ['C16'], 'StopCcnCode derive + CodeValue::{from,into,as_stop_ccn} over all 65536 codes', fn='num_enum derive StopCcnCode')
reg('enum_cdn_code', ['C16'], 'CdnCode derive + CodeValue::{from,as_cdn} over all 65536 codes', fn='num_enum derive CdnCode')
reg('message_type_try_read', ['C16', 'C05'], 'MessageType::try_read through the real phf table: all 65536 codes x 0..4 surplus octets',
    fn='message::avp::types::message_type::MessageType::try_read', secondary=['C20', 'C08', 'C15', 'C10', 'C13', 'C01'])
reg('message_type_write', ['C16', 'C06'], 'MessageType encoder: each of the 14 named values (reached through its RFC number) encodes to attribute type 0 + that number; get_length',
    fn='message::avp::types::message_type::<MessageType as WritableAVP>::write', secondary=['C03', 'C10', 'C07'])
reg('message_type_try_read_short', ['C05'], 'MessageType::try_read with < 2 octets', fn='message::avp::types::message_type::MessageType::try_read', secondary=['C20', 'C01', 'C13'])
reg('message_type_try_read_symreader', ['C02'], 'MessageType::try_read against any conforming reader: unchecked-call preconditions, all lengths',
    fn='message::avp::types::message_type::MessageType::try_read', secondary=['C01', 'C13'])
reg('bitmask_framing_capabilities', ['C17'], 'FramingCapabilities: new->accessors on bool^2; decode->encode and accessors on all u32')
reg('bitmask_bearer_capabilities', ['C17'], 'BearerCapabilities: new->accessors on bool^2; decode->encode and accessors on all u32')
reg('bitmask_bearer_type', ['C17'], 'BearerType: new->accessors on bool^2; decode->encode and accessors on all u32')
reg('bitmask_framing_type', ['C17'], 'FramingType: new->accessors on bool^2; decode->encode and accessors on all u32')
reg('slice_reader_ints', ['C18'], 'SliceReader::read_u{16,32,64}_be_unchecked: value, advance, pointer validity',
    fn='common::slice_reader::<SliceReader as Reader>::read_u{16,32,64}_be_unchecked', complete=False, bound='backing slice <= 16 octets (bodies inspect <= 8)',
    secondary=['C02', 'C01', 'C05'])
for _w in ('u8', 'u16', 'u32', 'u64'):
    reg('vec_writer_' + _w, ['C18'], 'VecWriter::new is empty; write_%s%s appends the big-endian octets after any prefix of <= 3 octets; len/is_empty' % (_w, '' if _w == 'u8' else '_be'),
        fn='common::vec_writer::{VecWriter::new, <VecWriter as Writer>::write_%s%s}' % (_w, '' if _w == 'u8' else '_be'), complete=False, bound='prefix <= 3 octets', secondary=['C09', 'C06'])
reg('vec_writer_write_bytes_at', ['C18'], 'write_bytes_at overwrites in place, length unchanged', fn='common::vec_writer::<VecWriter as Writer>::write_bytes_at',
    complete=False, bound='buffer <= 16 octets, patch <= 4 octets', secondary=['C09', 'C06', 'C07'])
reg('vec_writer_write_bytes_at_refuses_outside', ['C18'], 'write_bytes_at outside the written data panics', fn='common::vec_writer::<VecWriter as Writer>::write_bytes_at',
    complete=False, bound='buffer <= 16 octets, patch <= 4 octets', secondary=['C09', 'C07'])
reg('accm_try_read_symreader', ['C02', 'C05'], 'Accm::try_read against any conforming reader, all lengths', fn='message::avp::types::accm::Accm::try_read', secondary=['C01', 'C20', 'C13'])
reg('accm_try_read_values', ['C05'], 'Accm::try_read values / write, 10..12 octets', fn='message::avp::types::accm::Accm::try_read', secondary=['C03', 'C06', 'C10'])


reg('std_be_bytes', ['C18'], 'prelude wrappers vf_to_be_bytes / vf_uN_from_be_bytes: std to_be_bytes/from_be_bytes == enc/be arithmetic, all u16/u32/u64',
    fn='vf_prelude::{VfBe2,VfBe4,VfBe8,vf_u16_from_be_bytes,vf_u32_from_be_bytes,vf_u64_from_be_bytes}', secondary=['C06', 'C05'])
reg('std_slice_to_array', ['C18'], 'prelude wrapper vf_try_into: slice->array conversion succeeds iff lengths agree and copies the octets',
    fn='vf_prelude::VfTryInto', complete=False, bound='slice <= 8 octets, N in {2,4}', secondary=['C05', 'C12'])


reg('std_filter_map_any_bounded', ['C15'], 'prelude wrappers vf_iter_any / vf_filter_map_collect: std any() and filter_map().collect() equal the loop-based reference',
    fn='vf_prelude::{vf_iter_any,vf_filter_map_collect}', complete=False, bound='lists of <= 3 elements', secondary=['C05'], tier='thorough')


def twin_harnesses(fnkeys):
    """Kani twins (complete, generated from the specification table) for the given failing functions."""
    import spec_table
    _, twins = spec_table.kani_twins()
    out = []
    for name, fns in twins.items():
        if set(fns) & set(fnkeys):
            out.append({'name': name, 'props': [], 'secondary': [], 'complete': True, 'bound': None, 'tier': 'quick',
                        'what': 'Kani twin: complete check of %s against the specification table' % ', '.join(fns), 'fn': ', '.join(fns), 'twin_of': fns})
    return out


TWIN_PROPS = ['C03', 'C05', 'C06', 'C07']


def harnesses_for(props, tier):
    out = []
    for h in H.values():
        if (set(h['props']) | set(h['secondary'])) & set(props):
            if h['tier'] == 'thorough' and tier != 'thorough':
                continue
            out.append(dict(h))
    if tier == 'thorough' and set(props) & set(TWIN_PROPS):
        # thorough tier: the generated Kani twins (complete, per fixed-layout AVP kind, from the specification table) run
        # as a second, independent back end next to the Verus proofs of the same functions.  A twin mixes clauses of
        # several properties (accept / value / length / octets / re-decode), so its failure is *secondary* for each:
        # the witness search of the property decides.
        import spec_table
        _, twins = spec_table.kani_twins()
        for name, fns in sorted(twins.items()):
            out.append({'name': name, 'props': [], 'secondary': list(TWIN_PROPS), 'complete': True, 'bound': None, 'tier': 'thorough',
                        'what': 'Kani twin: complete check of %s against the specification table' % ', '.join(fns), 'fn': ', '.join(fns), 'twin_of': fns})
    return out


def make_scratch(repo, scratch):
    if os.path.exists(scratch):
        shutil.rmtree(scratch)
    os.makedirs(scratch)
    subprocess.check_call(['rsync', '-a', '--exclude', 'target', '--exclude', '.git', repo + '/', scratch + '/'])
    avp = os.path.join(scratch, 'src', 'message', 'avp.rs')
    if not os.path.exists(avp):
        avp = os.path.join(scratch, 'src', 'message', 'avp', 'mod.rs')
    s = open(avp).read()
    s += '\n#[cfg(kani)]\nmod vf_kani;\n'
    open(avp, 'w').write(s)
    os.makedirs(os.path.join(scratch, 'src', 'message', 'avp'), exist_ok=True)
    import spec_table
    twin_src, _ = spec_table.kani_twins()
    body = open(os.path.join(HERE, 'kani', 'vf_kani.rs')).read() + twin_src
    open(os.path.join(scratch, 'src', 'message', 'avp', 'vf_kani.rs'), 'w').write(body)


def parse_kani(out, names):
    """Split cargo-kani output per harness.  With -j the output is `Thread N: Checking harness X...` followed
    later by a `Thread N:` block holding the verdict; without -j, `Checking harness X...` then the verdict."""
    res = {}
    cur = {}          # thread -> harness name
    lines = out.split('\n')
    i = 0
    n = len(lines)
    last_thread = None
    block_owner = None
    blocks = {}
    for ln in lines:
        m = re.match(r'^(?:Thread (\d+): )?Checking harness (\S+?)\.\.\.', ln)
        if m:
            t = m.group(1) or '0'
            name = m.group(2).split('::')[-1]
            cur[t] = name
            block_owner = name
            blocks.setdefault(name, [])
            continue
        m = re.match(r'^Thread (\d+):\s*$', ln)
        if m:
            block_owner = cur.get(m.group(1))
            continue
        if re.match(r'^(Manual Harness Summary|Complete - )', ln):
            block_owner = None
        if block_owner:
            blocks.setdefault(block_owner, []).append(ln)
    for name, bl in blocks.items():
        ch = '\n'.join(bl)
        m = re.search(r'VERIFICATION:-\s*(SUCCESSFUL|FAILED)', ch)
        status = m.group(1) if m else 'UNKNOWN'
        if status == 'FAILED':
            failed = re.findall(r'Failed Checks: (.*)', ch)
            if failed and all('unwinding assertion' in x for x in failed):
                # the bound was too small for the (changed) code: nothing was refuted
                status = 'UNDETERMINED-UNWIND'
        if status == 'SUCCESSFUL' and 'refuses' in name:
            # `#[kani::should_panic]` succeeds if SOME input panics; the refusal must hold for EVERY input of the harness:
            # the cover placed after the refused call has to be unreachable
            mc = re.search(r'\*\* (\d+) of (\d+) cover properties satisfied', ch)
            if not mc:
                status = 'UNKNOWN'
            elif int(mc.group(1)) > 0:
                status = 'FAILED'
                ch += '\nFailed Checks: the refused call returns for some input of the harness (cover after the call is reachable)'
        mt = re.search(r'Verification Time: ([0-9.]+)s', ch)
        res[name] = {'status': status, 'output': ch[-6000:], 'time_s': float(mt.group(1)) if mt else None}
    return res


def run(hs, repo, workdir, tier):
    t0 = time.time()
    scratch = '/tmp/vf_kani_%d' % os.getpid()
    result = {'harnesses': [], 'build_error': None, 'wall': 0}
    try:
        try:
            make_scratch(repo, scratch)
        except (OSError, subprocess.CalledProcessError) as e:
            result['build_error'] = 'the Kani scratch copy could not be prepared for this tree (layout changed?): %r' % (e,)
            for h in hs:
                h = dict(h)
                h.update({'status': 'NOT-RUN', 'output': '', 'time_s': None})
                result['harnesses'].append(h)
            return result
        env = dict(os.environ)
        env['CARGO_NET_OFFLINE'] = 'true'
        env['CARGO_TARGET_DIR'] = os.path.join(scratch, 'target')
        names = [h['name'] for h in hs]
        # one cargo-kani invocation compiles once; harnesses then run in parallel
        cmd = ['cargo', 'kani', '-j', '12', '--output-format', 'terse', '-Z', 'unstable-options',
               '--harness-timeout', '600s' if tier == 'thorough' else '240s']
        for n in names:
            cmd += ['--harness', n]
        timeout = 3000 if tier == 'thorough' else 1500
        try:
            p = subprocess.run(cmd, cwd=scratch, capture_output=True, text=True, timeout=timeout, env=env)
            out = p.stdout + '\n' + p.stderr
        except subprocess.TimeoutExpired as e:
            out = (e.stdout or b'').decode('utf8', 'replace') if isinstance(e.stdout, bytes) else (e.stdout or '')
            out += '\nTIMEOUT'
            subprocess.run(['pkill', '-f', 'cbmc'])
        per = parse_kani(out, names)
        if not per:
            result['build_error'] = out[-3000:]
        for h in hs:
            r = per.get(h['name'], {'status': 'NOT-RUN', 'output': '', 'time_s': None})
            h = dict(h)
            h.update(r)
            if h['status'] == 'FAILED':
                # second pass, single-threaded, to obtain concrete values for the replay
                try:
                    p2 = subprocess.run(['cargo', 'kani', '-Z', 'concrete-playback', '--concrete-playback=print',
                                         '--output-format', 'regular', '--harness', h['name']],
                                        cwd=scratch, capture_output=True, text=True, timeout=600, env=env)
                    h['playback'] = (p2.stdout + p2.stderr)[-8000:]
                except subprocess.TimeoutExpired:
                    h['playback'] = ''
            result['harnesses'].append(h)
    finally:
        shutil.rmtree(scratch, ignore_errors=True)
    result['wall'] = time.time() - t0
    return result


if __name__ == '__main__':
    import sys
    import json
    props = sys.argv[1:] or ['C%02d' % i for i in range(1, 21)]
    hs = harnesses_for(props, 'thorough')
    r = run(hs, '/repo', '/tmp', 'thorough')
    for h in r['harnesses']:
        print(h['name'], h['status'], h['time_s'])
    if r['build_error']:
        print(r['build_error'])
    print('wall', r['wall'])
