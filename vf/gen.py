#!/usr/bin/env python3
"""Crate-image generator (DESIGN.md §2.3).

Reads /repo/src from the working tree, inlines the module tree into ONE Verus file, applies the
mechanical rewrite rules R1-R6 / D2-D8, and splices the contracts from the sidecar files
(vf/contracts/*.vfc and the ones printed from the specification table) into the real function
text.  Nothing executable is re-typed: bodies are carried verbatim apart from the listed rules.

Outputs: image text, a line map (generated line -> label / function), and an audit (per source
file: lines carried verbatim / rewritten / dropped).
"""
import difflib
import json
import os
import re
import sys

HERE = os.path.dirname(os.path.abspath(__file__))
sys.path.insert(0, HERE)
import rustscan as rs  # noqa: E402


class LostAnchor(Exception):
    """A rule pattern or a contract key no longer matches the source: INCONCLUSIVE, never a violation."""


# ---------------------------------------------------------------------------------------------
# sidecar parsing

class FnC:
    def __init__(self, key):
        self.key = key
        self.ret = None
        self.requires = []      # list of (labels, text)
        self.ensures = []
        self.safety = None      # list of property ids a non-clause failure is attributed to
        self.external_body = False
        self.loops = {}         # k -> dict(binder, invariant[], invariant_except_break[], ensures[], decreases[])
        self.closures = {}      # k -> dict(params, ret, requires[], ensures[])
        self.inserts = []       # (where, anchor, occurrence, labels, text)
        self.attrs = []
        self.src = None
        self.used = False
        self.opens = []
        self.noauto = False
        self.proof_label = None


def parse_labels(line):
    """`[P1,P2;S1,S2:name~dep1,dep2] clause`.  P = primary properties (a failure of the clause violates them),
    S = secondary (possibly affected: decided by a concrete witness), deps = labels whose failure in the same
    function explains this one (then this failure is not attributed separately)."""
    m = re.match(r'\s*\[([^\]]*)\]\s*(.*)$', line, flags=re.S)
    if not m:
        return None, line
    inner = m.group(1)
    if ':' not in inner:
        return None, line
    props, name = inner.split(':', 1)
    prim, _, sec = props.partition(';')
    prim = [p.strip() for p in prim.split(',') if p.strip()]
    sec = [p.strip() for p in sec.split(',') if p.strip()]
    if not all(re.match(r'C\d\d$', p) for p in prim + sec):
        return None, line
    name, _, deps = name.partition('~')
    deps = [d.strip() for d in deps.split(',') if d.strip()]
    return {'props': prim, 'secondary': sec, 'name': name.strip(), 'deps': deps}, m.group(2)


def split_clauses(lines):
    """lines -> list of (label|None, text).  A clause starts at a line that begins with `[Cxx:..]`;
    unlabelled text before the first label forms clauses of its own (one per line ending with ',')."""
    out = []
    cur = None
    for ln in lines:
        if not ln.strip():
            continue
        lab, rest = parse_labels(ln)
        if lab is not None:
            if cur:
                out.append(cur)
            cur = [lab, rest.rstrip()]
        else:
            if cur is None:
                cur = [None, ln.rstrip()]
            else:
                cur[1] += '\n' + ln.rstrip()
    if cur:
        out.append(cur)
    res = []
    for lab, text in out:
        t = text.strip()
        if t.endswith(','):
            t = t[:-1]
        res.append((lab, t))
    return res


def parse_sidecar(text, src):
    """Returns dict(fns={key: FnC}, items=[(modpath, text)], impl_items=[(modpath, header, text)],
    trait_items=[(modpath::Trait, text)], replaces=[...])."""
    fns = {}
    items = []
    impl_items = []
    cur = None          # FnC
    section = None      # ('requires'|'ensures'|..., target list)
    sub = None          # loop/closure dict
    buf = []
    pending = None      # callable to flush buf

    def flush():
        nonlocal buf, pending
        if pending:
            pending(buf)
        buf = []
        pending = None

    lines = text.split('\n')
    for ln in lines:
        s = ln.strip()
        if s.startswith('#') and not s.startswith('#['):
            continue
        if s.startswith('@'):
            flush()
            parts = s.split(None, 1)
            d = parts[0]
            arg = parts[1].strip() if len(parts) > 1 else ''
            if d == '@fn':
                cur = FnC(arg)
                cur.src = src
                if arg in fns:
                    raise LostAnchor('duplicate @fn %s in %s' % (arg, src))
                fns[arg] = cur
                sub = None
            elif d == '@ret':
                if isinstance(sub, dict) and sub.get('_kind') == 'closure':
                    sub['ret'] = arg
                else:
                    cur.ret = arg
            elif d == '@safety':
                prim, _, sec = arg.partition(';')
                cur.safety = {'props': [p.strip() for p in prim.split(',') if p.strip()],
                              'secondary': [p.strip() for p in sec.split(',') if p.strip()]}
            elif d == '@proof-labels':
                cur.proof_label = parse_labels(arg + ' x')[0]
                if cur.proof_label is None:
                    raise LostAnchor('bad @proof-labels in %s: %s' % (src, arg))
            elif d == '@external_body':
                cur.external_body = True
            elif d == '@attr':
                cur.attrs.append(arg)
            elif d == '@loop':
                sub = {'_kind': 'loop', 'binder': None, 'invariant': [], 'invariant_except_break': [],
                       'ensures': [], 'decreases': []}
                cur.loops[int(arg)] = sub
            elif d == '@closure':
                sub = {'_kind': 'closure', 'params': None, 'ret': None, 'requires': [], 'ensures': []}
                # `@closure 2` = second closure in source order; `@closure ~text` = the first closure whose body contains text
                cur.closures[arg if arg.startswith('~') else int(arg)] = sub
            elif d == '@endsub':
                sub = None
            elif d == '@binder':
                sub['binder'] = arg
            elif d == '@params':
                sub['params'] = arg
            elif d in ('@requires', '@ensures', '@invariant', '@invariant_except_break', '@decreases'):
                name = d[1:]
                if sub is not None and name in sub:
                    tgt = sub[name]
                else:
                    if name in ('invariant', 'invariant_except_break', 'decreases'):
                        raise LostAnchor('%s outside @loop in %s (%s)' % (d, src, cur.key if cur else '?'))
                    tgt = getattr(cur, name)

                def mk(tgt, arg):
                    def f(b):
                        tgt.extend(split_clauses(([arg] if arg else []) + b))
                    return f
                pending = mk(tgt, arg)
            elif d == '@insert':
                # @insert before|after|body-start|body-end ["anchor text"] [#n] [[labels]]
                m = re.match(r'(before|after|body-start|body-end)\s*(?:"((?:[^"\\]|\\.)*)")?\s*(?:#(\d+))?\s*(\[[^\]]*\])?\s*$', arg)
                if not m:
                    raise LostAnchor('bad @insert in %s: %s' % (src, arg))
                where, anchor, occ, lab = m.group(1), m.group(2), int(m.group(3) or 1), m.group(4)
                labels = parse_labels(lab + ' x')[0] if lab else None
                c = cur

                def mk2(c, where, anchor, occ, labels):
                    def f(b):
                        c.inserts.append((where, anchor, occ, labels, '\n'.join(b)))
                    return f
                pending = mk2(c, where, anchor, occ, labels)
            elif d == '@items':
                def mk3(arg):
                    def f(b):
                        items.append((arg, '\n'.join(b)))
                    return f
                pending = mk3(arg)
                cur = None
                sub = None
            elif d == '@impl-items':
                # @impl-items <modpath> | <normalized impl header prefix>
                mp, hdr = [x.strip() for x in arg.split('|', 1)]

                def mk4(mp, hdr):
                    def f(b):
                        impl_items.append((mp, hdr, '\n'.join(b)))
                    return f
                pending = mk4(mp, hdr)
                cur = None
                sub = None
            elif d == '@end':
                cur = None
                sub = None
            else:
                raise LostAnchor('unknown directive %s in %s' % (d, src))
        else:
            buf.append(ln)
    flush()
    return {'fns': fns, 'items': items, 'impl_items': impl_items}


def load_sidecars(paths_or_texts):
    allf = {}
    items = []
    impl_items = []
    for src, text in paths_or_texts:
        r = parse_sidecar(text, src)
        for k, v in r['fns'].items():
            if k in allf:
                raise LostAnchor('contract for %s given twice (%s, %s)' % (k, allf[k].src, src))
            allf[k] = v
        items += r['items']
        impl_items += r['impl_items']
    return allf, items, impl_items


# ---------------------------------------------------------------------------------------------
# text-level rules

def strip_comments(text):
    b, cmask = rs.blank(text)
    out = []
    for ch, c in zip(text, cmask):
        if c:
            if ch == '\n':
                out.append(ch)
        else:
            out.append(ch)
    return ''.join(out)


def rewrite_asserts(text):
    """R3: assert!(c[, msg..]) -> vf_runtime_assert(c); assert_eq!(a, b[, msg..]) -> vf_runtime_assert((a) == (b)); likewise _ne"""
    while True:
        b, _ = rs.blank(text)
        m = re.search(r'\bassert_(eq|ne)!\s*\(', b)
        if not m:
            break
        o = m.end() - 1
        c = rs.match_bracket(b, o)
        inner_b = b[o + 1:c]
        parts, depth, last = [], 0, 0
        for k, ch in enumerate(inner_b):
            if ch in '([{':
                depth += 1
            elif ch in ')]}':
                depth -= 1
            elif ch == ',' and depth == 0:
                parts.append(text[o + 1 + last:o + 1 + k])
                last = k + 1
        parts.append(text[o + 1 + last:c])
        op = '==' if m.group(1) == 'eq' else '!='
        text = text[:m.start()] + 'vf_runtime_assert((%s) %s (%s))' % (parts[0].strip(), op, parts[1].strip()) + text[c + 1:]
    # panic!(..) / unreachable!(..) / unimplemented!(..) / todo!(..): a call that never returns and may only be reached in the
    # guard reading (`requires !strict()`), exactly like `assert!(false)`
    while True:
        b, _ = rs.blank(text)
        m = re.search(r'(?<![\w:])(?:(?:std|core)::)?(panic|unreachable|unimplemented|todo)!\s*([(\[{])', b)
        if not m:
            break
        o = m.end() - 1
        c = rs.match_bracket(b, o)
        text = text[:m.start()] + 'vf_runtime_panic()' + text[c + 1:]
        count('R3')
    while True:
        b, _ = rs.blank(text)
        m = re.search(r'\bassert!\s*\(', b)
        if not m:
            return text
        o = m.end() - 1
        c = rs.match_bracket(b, o)
        inner_b = b[o + 1:c]
        # split at first top-level comma
        depth = 0
        cut = None
        for k, ch in enumerate(inner_b):
            if ch in '([{':
                depth += 1
            elif ch in ')]}':
                depth -= 1
            elif ch == ',' and depth == 0:
                cut = k
                break
        cond = text[o + 1:c] if cut is None else text[o + 1:o + 1 + cut]
        cond = re.sub(r'\s+', ' ', cond).strip()
        text = text[:m.start()] + 'vf_runtime_assert(' + cond + ')' + text[c + 1:]


RULES_APPLIED = {}
OPAQUE_CONSTS = set()  # names of `const` items whose initialiser the Verus front end rejected: kept, but opaque in the image (R12)
DROP_STATICS = set()   # names of `static` items the Verus front end rejected (shared state: reported by C19's frame scan)


def count(rule, n=1):
    if n:
        RULES_APPLIED[rule] = RULES_APPLIED.get(rule, 0) + n


def sub(rule, pat, rep, text, flags=0):
    new, n = re.subn(pat, rep, text, flags=flags)
    count(rule, n)
    return new


STD_METHOD_NAMES = set('''map map_err len iter iter_mut unwrap unwrap_or into from clone get get_mut push extend contains is_empty as_ref
as_mut to_owned to_vec to_string ok ok_or ok_or_else and_then or_else take skip filter collect any all min max new default fmt eq ne cmp
partial_cmp hash next read write first last split_at chunks zip enumerate rev fold sum count find position copied cloned flatten
is_some is_none is_ok is_err expect try_into try_from borrow as_bytes as_slice as_str bytes chars insert remove pop clear
truncate resize reserve with_capacity capacity swap sort dedup join concat repeat then then_some transpose'''.split())
NUM_ENUMS = ['StopCcnCode', 'CdnCode', 'ErrorType', 'ProxyAuthenType']


def apply_rules(text, relpath):
    text = strip_comments(text)
    # R5 removals
    text = sub('R5', r'^[ \t]*#\[inline\][ \t]*\n', '', text, re.M)
    text = sub('R5', r'^[ \t]*#\[repr\(u16\)\][ \t]*\n', '', text, re.M)
    text = sub('R5', r'^[ \t]*#\[allow\([^\]]*\)\][^\n]*\n', '', text, re.M)
    text = sub('R5', r'^[ \t]*#\[cfg\(test\)\]\s*mod tests;[ \t]*\n', '', text, re.M)
    text = sub('R5', r'^#!\[cfg_attr[^\n]*\n', '', text, re.M)
    text = sub('R5', r'^[ \t]*#\[enum_dispatch(\([^)]*\))?\][ \t]*\n', '', text, re.M)
    text = sub('R5', r'^[ \t]*use enum_dispatch::enum_dispatch;[ \t]*\n', '', text, re.M)
    text = sub('R5', r'^[ \t]*use num_enum::(\{[^}]*\}|\w+);[ \t]*\n', '', text, re.M)
    text = sub('R5', r'^[ \t]*use thiserror::Error;[ \t]*\n', '', text, re.M)
    text = sub('R5', r'^[ \t]*use phf::phf_map;[ \t]*\n', '', text, re.M)
    text = sub('R5', r'^[ \t]*#\[error\(.*\)\][ \t]*\n', '', text, re.M)
    while True:      # the same attribute wrapped over several lines (rustfmt)
        bb, _ = rs.blank(text)
        m = re.search(r'(?m)^[ \t]*#\[error\s*\(', bb)
        if not m:
            break
        c = rs.match_bracket(bb, bb.index('[', m.start()))
        e = c + 1
        while e < len(text) and text[e] in ' \t':
            e += 1
        if e < len(text) and text[e] == '\n':
            e += 1
        text = text[:m.start()] + text[e:]
        count('R5')
    text = sub('R5', r'^#!\[(warn|deny|allow|forbid|doc)\b[^\n]*\]\s*\n', '', text, re.M)
    text = sub('R5', r'^[ \t]*#\[cfg\(test\)\]\s*(pub(\([a-z]+\))?\s+)?mod\s+\w+\s*;[ \t]*\n', '', text, re.M)
    text = sub('R5', r'IntoPrimitive, TryFromPrimitive, ', '', text)
    # the same derives in any other position / combination (an enum that newly derives them: generic D3 stand-in)
    def _strip_prim(m):
        items = [x.strip() for x in m.group(1).split(',') if x.strip()]
        kept = [x for x in items if x.split('::')[-1] not in ('IntoPrimitive', 'TryFromPrimitive')]
        if len(kept) == len(items):
            return m.group(0)
        count('R5')
        return '#[derive(%s)]' % ', '.join(kept) if kept else ''
    text = re.sub(r'#\[derive\(([^)]*)\)\]', _strip_prim, text)
    text = sub('R5', r'#\[derive\(Error, ', '#[derive(', text)
    # R7: visibility widening (`pub(crate)` -> `pub`): Verus requires contract expressions of a `pub fn` to be
    # well-formed wherever the fn is visible; in a single-crate image widening changes no behaviour
    text = sub('R7', r'\bpub\(crate\)', 'pub', text)
    # R8: statement-form output macros are dropped from the image so that the remaining obligations can still be
    # decided; the C19 frame scan (run.py) reports them from the real source
    while True:
        bb, _ = rs.blank(text)
        m = re.search(r'\b(println|eprintln|print|eprint|dbg)!\s*\(', bb)
        if not m:
            break
        o = m.end() - 1
        c = rs.match_bracket(bb, o)
        e = rs.skip_ws(bb, c + 1)
        if e < len(bb) and bb[e] == ';':
            text = text[:m.start()] + text[e + 1:]
            count('R8')
        else:
            # expression position: leave it; the front end will reject it (C19 closed world)
            text = text[:m.start()] + 'vf_output_macro_in_expression_position!(' + text[o + 1:]
    # R9: a `static` item the front end rejects (interior mutability, lazy initialisation) is dropped from the image so
    # that the other obligations can be decided; functions that use it then fail to resolve and are left outside the
    # image (forced external_body, witness-decided); the C19 frame scan reports the item itself
    for name in sorted(DROP_STATICS):
        while True:
            bb, _ = rs.blank(text)
            m = re.search(r'(?m)^[ \t]*(pub(\([a-z]+\))?\s+)?static\s+(mut\s+)?%s\b' % re.escape(name), bb)
            if not m:
                break
            k = m.end()
            while k < len(bb) and bb[k] != ';':
                if bb[k] in '([{':
                    k = rs.match_bracket(bb, k)
                k += 1
            text = text[:m.start()] + text[k + 1:]
            count('R9')
    # R13: hand-written text-formatting and byte-sink trait impls (`impl fmt::Debug/Display for T`, `impl std::io::Write for T`)
    # are no codec path and use formatting machinery outside Verus: marked `#[verifier::external]` (rustc still sees them,
    # the verifier does not; the C19 frame scan reads them from the real source)
    bb, _ = rs.blank(text)
    for m in reversed(list(re.finditer(r'(?m)^([ \t]*)impl\s*(<[^>{}]*>\s*)?(?:(?:std|core)::)?(?:fmt::(?:Debug|Display)|io::Write)\s+for\s+[^{;]+\{', bb))):
        text = text[:m.start()] + m.group(1) + '#[verifier::external]\n' + text[m.start():]
        count('R13')
    # R12: a `const` whose initialiser the front end rejects (`trailing_zeros()`, ...) keeps its declaration but becomes
    # opaque (`#[verifier::external_body]`); every function that mentions it is degraded (splice_fn)
    for name in sorted(OPAQUE_CONSTS):
        bb, _ = rs.blank(text)
        m = re.search(r'(?m)^([ \t]*)((?:pub(?:\([a-z]+\))?\s+)?const\s+%s\s*:)' % re.escape(name), bb)
        if m:
            text = text[:m.start()] + m.group(1) + '#[verifier::external_body] ' + text[m.start() + len(m.group(1)):]
            count('R12')
    # R10: a type that derives PartialEq + Eq and is built only from primitive integers, bool and field-less enums gets
    # Verus' `Structural` derive, which gives the *derived* `==` its structural meaning (otherwise `a == b` on such a
    # type is opaque to the verifier).  Types holding Vec / String / generics are left alone.
    prim = r'(?:u8|u16|u32|u64|usize|i8|i16|i32|i64|bool)'
    fieldless = set(re.findall(r'#\[derive\([^\]]*\bPartialEq\b[^\]]*\)\]\s*(?:pub(?:\([a-z]+\))?\s+)?enum\s+(\w+)\s*\{[^(){}]*\}', text))
    def add_structural(m):
        derive, kind, name, body = m.group(1), m.group(2), m.group(3), m.group(4)
        if 'PartialEq' not in derive or not re.search(r'\bEq\b', derive) or 'Structural' in derive:
            return m.group(0)
        if kind == 'enum':
            ok = not re.search(r'[({]', body)
        else:
            tys = re.findall(r':\s*([^,\n]+)', body)
            ok = bool(tys) and all(re.fullmatch(prim, t.strip()) or t.strip() in fieldless for t in tys)
        if not ok:
            return m.group(0)
        count('R10')
        return m.group(0).replace('#[derive(' + derive + ')]', '#[derive(' + derive + ', Structural)]', 1)
    text = re.sub(r'#\[derive\(([^\]]*)\)\]\s*(?:pub(?:\([a-z]+\))?\s+)?(enum|struct)\s+(\w+)\s*\{([^{}]*)\}', add_structural, text)
    # R11: debug/release configurations (C01 quantifies over builds with and without debug assertions)
    text = sub('R11', r'\bcfg!\s*\(\s*debug_assertions\s*\)', 'vf_cfg_debug_assertions()', text)
    text = sub('R11', r'\bcfg!\s*\(\s*not\s*\(\s*debug_assertions\s*\)\s*\)', '(!vf_cfg_debug_assertions())', text)
    while True:
        bb, _ = rs.blank(text)
        m = re.search(r'\bdebug_assert(_eq|_ne)?!\s*\(', bb)
        if not m:
            break
        o = m.end() - 1
        cpos = rs.match_bracket(bb, o)
        inner_b = bb[o + 1:cpos]
        parts, depth, last = [], 0, 0
        for k, ch in enumerate(inner_b):
            if ch in '([{':
                depth += 1
            elif ch in ')]}':
                depth -= 1
            elif ch == ',' and depth == 0:
                parts.append(text[o + 1 + last:o + 1 + k])
                last = k + 1
        parts.append(text[o + 1 + last:cpos])
        if m.group(1) == '_eq':
            cond = '(%s) == (%s)' % (parts[0].strip(), parts[1].strip())
        elif m.group(1) == '_ne':
            cond = '(%s) != (%s)' % (parts[0].strip(), parts[1].strip())
        else:
            cond = re.sub(r'\s+', ' ', parts[0]).strip()
        text = text[:m.start()] + 'vf_debug_assert(' + cond + ')' + text[cpos + 1:]
        count('R11')
    while True:
        bb, _ = rs.blank(text)
        m = re.search(r'#\[cfg\(\s*(not\s*\(\s*)?debug_assertions\s*\)?\s*\)\]', bb)
        if not m:
            break
        st = rs.skip_ws(bb, m.end())
        if re.match(r'(let|fn|pub|const|static|use|impl|struct|enum|mod|type)\b', bb[st:]):
            raise LostAnchor('R11: #[cfg(debug_assertions)] on a declaration is not handled (%s)' % relpath)
        k = st
        while k < len(bb):
            ch = bb[k]
            if ch in '([':
                k = rs.match_bracket(bb, k) + 1
                continue
            if ch == '{':
                k2 = rs.match_bracket(bb, k)
                nx = rs.skip_ws(bb, k2 + 1)
                if bb.startswith('else', nx):
                    k = nx + 4
                    continue
                if nx < len(bb) and bb[nx] == ';':
                    k = nx
                else:
                    k = k2
                break
            if ch == ';':
                break
            k += 1
        cond = '!vf_cfg_debug_assertions()' if m.group(1) else 'vf_cfg_debug_assertions()'
        stmt = text[st:k + 1]
        text = text[:m.start()] + 'if %s { %s }' % (cond, stmt) + text[k + 1:]
        count('R11')
    bb, _ = rs.blank(text)
    other = [x for x in re.findall(r'#\[cfg\(([^\]]*)\)\]|\bcfg!\s*\(([^)]*)\)', bb) if (x[0] or x[1]).strip() not in ('test',)]
    if other:
        raise LostAnchor('conditional compilation other than cfg(test) / cfg(debug_assertions) in %s: %s' % (relpath, other[:2]))
    # R1
    text = sub('R1', r'\|_\|', '|_vf|', text)
    # R2
    text = sub('R2', r'\.borrow\(\)', '.vf_borrow()', text)
    text = sub('R2', r'\.to_be_bytes\(\)', '.vf_to_be_bytes()', text)
    text = sub('R2', r'\bu(16|32|64)::from_be_bytes\(', r'vf_u\1_from_be_bytes(', text)
    # every `.try_into()` (slice -> array, and u16 -> num_enum type) goes through the wrapper trait `VfTryInto`, whose
    # impls carry the contracts (slice: prelude; enums: D3 stand-ins)
    text = sub('R2', r'\.try_into\(\)', '.vf_try_into()', text)
    # R3
    n0 = len(re.findall(r'\bassert!\s*\(', rs.blank(text)[0]))
    text = rewrite_asserts(text)
    count('R3', n0)
    # R6
    text = sub('R6', r'(\w+)\.into_iter\(\)\.filter_map\((\|x\| x\.(?:err|ok)\(\))\)\.collect\(\)',
               r'vf_filter_map_collect(\1, \2)', text)
    text = sub('R6', r'(\w+)\.iter\(\)\.any\(', r'vf_iter_any(&\1, ', text)
    # D7: const initialiser with a shift: value axiomatised in contracts/avp.vfc, checked by rustc const-eval in vf_kani.rs
    if re.search(r'const MAX_LENGTH: u16 = \(1 << Self::LENGTH_BITS\) - 1;', text):
        if not re.search(r'const LENGTH_BITS: u8 = 10;', text):
            raise LostAnchor('D7: LENGTH_BITS is no longer the literal 10; MAX_LENGTH stand-in does not apply')
        # the initialiser `(1 << 10) - 1` is replaced by its value (Verus leaves `<<` uninterpreted in const context);
        # `const _: () = { assert!(AVP::MAX_LENGTH == 1023) }` in vf_kani.rs has rustc check the value on the real crate
        text = sub('D7', r'const MAX_LENGTH: u16 = \(1 << Self::LENGTH_BITS\) - 1;', 'const MAX_LENGTH: u16 = 1023;', text)
    # D4: the phf table is outside the image (MessageType::try_read is external_body, decided by Kani)
    text = sub('D4', r'static MESSAGE_CODE_TO_TYPE.*?\n\};\n', '', text, re.S)
    return text


def d3_standins(text):
    out = ''
    for en in NUM_ENUMS:
        if re.search(r'pub enum ' + en + r' \{', text):
            count('D3')
            out += '''
pub struct VfPrimErr%(en)s {}
impl TryFrom<u16> for %(en)s {
    type Error = VfPrimErr%(en)s;
    #[verifier::external_body]
    fn try_from(x: u16) -> (r: Result<Self, VfPrimErr%(en)s>)
        ensures
            r is Ok <==> crate::vf_spec::spec_%(lc)s_of(x) is Some,
            r is Ok ==> Some(r->Ok_0) == crate::vf_spec::spec_%(lc)s_of(x),
    { unimplemented!() }
}
impl From<%(en)s> for u16 {
    #[verifier::external_body]
    fn from(e: %(en)s) -> (r: u16)
        ensures r == crate::vf_spec::spec_%(lc)s_code(e),
    { unimplemented!() }
}
impl vstd::std_specs::convert::FromSpecImpl<%(en)s> for u16 {
    open spec fn obeys_from_spec() -> bool { true }
    open spec fn from_spec(e: %(en)s) -> u16 { crate::vf_spec::spec_%(lc)s_code(e) }
}
impl crate::vf_prelude::VfTryInto<%(en)s> for u16 {
    type VfErr = VfPrimErr%(en)s;
    #[verifier::external_body]
    fn vf_try_into(&self) -> (r: Result<%(en)s, VfPrimErr%(en)s>)
        ensures
            r is Ok <==> crate::vf_spec::spec_%(lc)s_of(*self) is Some,
            r is Ok ==> Some(r->Ok_0) == crate::vf_spec::spec_%(lc)s_of(*self),
    { unimplemented!() }
}
''' % {'en': en, 'lc': re.sub(r'(?<!^)([A-Z])', r'_\1', en).lower()}
    return out


def d3_generic(original):
    """Generic D3: an enum outside NUM_ENUMS that derives num_enum's IntoPrimitive / TryFromPrimitive gets stand-in
    conversion impls whose (assumed) contract is num_enum's documented semantics over the discriminants DECLARED IN THE
    SOURCE (explicit `= n`, otherwise previous + 1).  Enums with non-literal discriminants are left alone (the image is
    then rejected and the run is inconclusive)."""
    text = strip_comments(original)
    out = ''
    for m in re.finditer(r'((?:#\[[^\]]*\]\s*)+)pub enum (\w+)\s*\{([^}]*)\}', text):
        attrs, en, body = m.group(1), m.group(2), m.group(3)
        if en in NUM_ENUMS:
            continue
        dm = re.search(r'#\[derive\(([^)]*)\)\]', attrs)
        if not dm:
            continue
        derives = [x.strip().split('::')[-1] for x in dm.group(1).split(',')]
        into, tryfrom = 'IntoPrimitive' in derives, 'TryFromPrimitive' in derives
        if not (into or tryfrom):
            continue
        rm = re.search(r'#\[repr\((u8|u16|u32|u64)\)\]', attrs)
        if not rm:
            continue
        ty = rm.group(1)
        variants = []
        nxt = 0
        ok = True
        for v in [x.strip() for x in body.split(',') if x.strip()]:
            v = re.sub(r'#\[[^\]]*\]\s*', '', v)
            vm = re.match(r'^(\w+)(?:\s*=\s*(0x[0-9a-fA-F_]+|[0-9_]+)(?:u8|u16|u32|u64)?)?$', v)
            if not vm:
                ok = False
                break
            if vm.group(2):
                nxt = int(vm.group(2).replace('_', ''), 0)
            variants.append((vm.group(1), nxt))
            nxt += 1
        if not ok or not variants:
            continue
        count('D3g')
        arms = ''.join('            %s::%s => %d,\n' % (en, v, d) for v, d in variants)
        out += '\npub open spec fn vf_disc_%s(e: %s) -> %s {\n    match e {\n%s    }\n}\n' % (en, en, ty, arms)
        if into:
            out += '''impl From<%(en)s> for %(ty)s {
    #[verifier::external_body]
    fn from(e: %(en)s) -> (r: %(ty)s)
        ensures r == vf_disc_%(en)s(e),
    { unimplemented!() }
}
impl vstd::std_specs::convert::FromSpecImpl<%(en)s> for %(ty)s {
    open spec fn obeys_from_spec() -> bool { true }
    open spec fn from_spec(e: %(en)s) -> %(ty)s { vf_disc_%(en)s(e) }
}
''' % {'en': en, 'ty': ty}
        if tryfrom:
            member = ' || '.join('x == %d' % d for _, d in variants)
            out += '''pub struct VfPrimErr%(en)s {}
impl TryFrom<%(ty)s> for %(en)s {
    type Error = VfPrimErr%(en)s;
    #[verifier::external_body]
    fn try_from(x: %(ty)s) -> (r: Result<Self, VfPrimErr%(en)s>)
        ensures
            r is Ok <==> (%(member)s),
            r is Ok ==> vf_disc_%(en)s(r->Ok_0) == x,
    { unimplemented!() }
}
impl crate::vf_prelude::VfTryInto<%(en)s> for %(ty)s {
    type VfErr = VfPrimErr%(en)s;
    #[verifier::external_body]
    fn vf_try_into(&self) -> (r: Result<%(en)s, VfPrimErr%(en)s>)
        ensures
            r is Ok <==> ({ let x = *self; %(member)s }),
            r is Ok ==> vf_disc_%(en)s(r->Ok_0) == *self,
    { unimplemented!() }
}
''' % {'en': en, 'ty': ty, 'member': member}
    return out


def d2_enum_dispatch(text):
    m = re.search(r'pub enum AVP \{(.*?)\n\}', text, flags=re.S)
    if not m:
        return ''
    variants = re.findall(r'^\s*([A-Za-z0-9]+)\(types::', m.group(1), flags=re.M)
    count('D2')
    arms_w = ''.join('            AVP::%s(i) => WritableAVP::write(i, writer),\n' % v for v in variants)
    arms_q = ''.join('            AVP::%s(i) => QueryableAVP::get_length(i),\n' % v for v in variants)
    arms_v = ''.join('            AVP::%s(i) => i.av(),\n' % v for v in variants)
    return '''
impl AVP {
    pub open spec fn av(&self) -> crate::vf_spec::AvpV {
        match self {
%s        }
    }
}
impl WritableAVP for AVP {
    open spec fn wv(&self) -> crate::vf_spec::AvpV { self.av() }
    fn write<VfG0: Writer>(&self, writer: &mut VfG0) {
        match self {
%s        }
    }
}
impl QueryableAVP for AVP {
    open spec fn qv(&self) -> crate::vf_spec::AvpV { self.av() }
    fn get_length(&self) -> usize {
        match self {
%s        }
    }
}
''' % (arms_v, arms_w, arms_q)


# ---------------------------------------------------------------------------------------------
# splicing

TAG = ' // @vf'


class Gen:
    def lose(self, f, what):
        self.lost.setdefault(f.key, []).append(what)

    def __init__(self, src_root, contracts, items, impl_items, canary=False):
        self.src_root = src_root
        self.contracts = contracts
        self.items = items
        self.impl_items = impl_items
        self.canary = canary
        self.fn_index = []       # all fn keys seen
        self.audit = {}
        self.file_chunks = []    # (relpath, text) for audit
        self.used_items = set()
        self.used_impl_items = set()
        self.ext_bodies = []
        self.lost = {}            # fn key -> [description of body annotations that could not be placed]
        self.forced = []
        self.skip_body = set()    # fn keys whose body annotations are dropped (they no longer type-check)
        self.force_external = set()   # fn keys whose real body the Verus front end rejects: body left outside the image

    # -- one function -------------------------------------------------------------------------
    def splice_fn(self, text, b, f, c):
        """Return list of edits (start, end, replacement) for function f with contract c (may be None)."""
        edits = []
        in_trait_ctx = f.ctx_kind == 'trait' or (f.ctx_kind == 'impl' and f.ctx_trait)
        # R4: impl Trait args -> named generics (trait methods only)
        new_generics = []
        if in_trait_ctx:
            ptxt = b[f.params_open:f.params_close]
            gi = 0
            for m in re.finditer(r'\bimpl\s+', ptxt):
                s0 = f.params_open + m.start()
                j = f.params_open + m.end()
                mm = re.match(r'[A-Za-z_][A-Za-z0-9_:]*', b[j:])
                j2 = j + mm.end()
                if b[j2] == '<':
                    j2 = rs.match_angle(b, j2) + 1
                gname = 'VfG%d' % gi
                gi += 1
                new_generics.append('%s: %s' % (gname, text[j:j2]))
                edits.append((s0, j2, gname))
                count('R4')
        if new_generics:
            if f.generics:
                edits.append((f.generics[1], f.generics[1], ', ' + ', '.join(new_generics)))
            else:
                nm_end = f.kw + re.match(r'fn\s+[A-Za-z_][A-Za-z0-9_]*', b[f.kw:]).end()
                edits.append((nm_end, nm_end, '<' + ', '.join(new_generics) + '>'))
        # a loop without a spliced invariant (new code): nothing can be proved across it, so every failure in this
        # function is undecided (witness-decided); `while`/`loop` additionally need the no-decreases escape or the
        # whole run would stop with a VIR error
        if f.has_body and not (c and c.external_body) and f.key not in self.skip_body:
            lo0, hi0 = f.body_open + 1, f.body_close
            all_loops = rs.find_loops(b, lo0, hi0)
            bare = [(k + 1, kw) for k, (_, kw, _, _) in enumerate(all_loops) if not (c and (k + 1) in c.loops)]
            if bare:
                self.lose(f, 'loop(s) without invariant: %s' % ', '.join('#%d (%s)' % x for x in bare))
                if any(kw != 'for' for _, kw in bare):
                    ind = re.match(r'[ \t]*', text[f.line_start:]).group(0)
                    edits.append((f.line_start, f.line_start, '%s#[verifier::exec_allows_no_decreases_clause]%s\n' % (ind, TAG)))
        if f.has_body and not (c and c.external_body):
            # an item nested in the body (`fn helper(..) {..}` inside a function) is invisible to the item scan: it carries
            # no contract, so what it returns is opaque to this function's proof
            nested = re.findall(r'(?<![\w.])fn\s+([A-Za-z_][A-Za-z0-9_]*)\s*[<(]', b[f.body_open + 1:f.body_close])
            if nested:
                self.lose(f, 'nested fn item(s) without contract: %s' % ', '.join(sorted(set(nested))))
        if f.has_body and OPAQUE_CONSTS:
            used = [n for n in sorted(OPAQUE_CONSTS) if re.search(r'\b%s\b' % re.escape(n), b[f.body_open:f.body_close])]
            if used:
                self.lose(f, 'uses constant(s) whose initialiser is outside what the front end accepts (opaque in the image): %s' % ', '.join(used))
        # closures: the result of a closure without a spliced contract is opaque to the proof.  The closures of the tree the
        # contracts were written for are in the inventory vf/known_closures.json; a closure that is not there (and that no
        # `@closure` entry selects) makes every failure in this function undecided (witness-decided)
        if f.has_body and not (c and c.external_body) and f.key not in self.skip_body:
            cls0 = rs.find_closures(b, f.body_open + 1, f.body_close)
            texts = [re.sub(r'\s+', ' ', text[cl0['start']:cl0['body'][1]]).strip() for cl0 in cls0]
            self.closure_inventory[f.key] = texts
            known_cl = getattr(self, 'known_closures', None)
            if known_cl is not None:
                sel = [k[1:] for k in (c.closures if c else {}) if isinstance(k, str)]
                fresh = [t for t in texts if t not in known_cl.get(f.key, []) and not any(x in t for x in sel)]
                if fresh:
                    self.lose(f, 'closure(s) that are new in this tree (result opaque to the proof): %s' % '; '.join(x[:60] for x in fresh[:3]))
        if f.has_body and getattr(self, 'new_fn_keys', None) and f.key not in self.new_fn_keys:
            body_b = b[f.body_open:f.body_close]
            called = []
            for nk in self.new_fn_keys:
                n = nk.split('::')[-1]
                owner = nk.split('::')[-2] if '::' in nk else ''
                # a call is `self.n(`, `Self::n(`, `Owner::n(`, a path call `..::n(` or a plain `n(`; a method call on
                # some other receiver (`reader.len()`) is NOT taken for a call of a new `len`
                pat = r'(\bself\s*\.\s*%s\s*\(|\bSelf::%s\s*\(|\b%s::%s\s*\(|(?<![\w.])%s\s*\()' % (
                    re.escape(n), re.escape(n), re.escape(owner.strip('<>').split(' ')[0]) or 'Self', re.escape(n), re.escape(n))
                hit = re.search(pat, body_b)
                if not hit and n not in getattr(self, 'known_fn_names', ()) and n not in STD_METHOD_NAMES:
                    # a method call on another receiver (`flags.header_length()`): taken for a call of the new function
                    # only if no function of the inventory and no common std method bears that name
                    hit = re.search(r'\.\s*%s\s*(::<[^>]*>)?\s*\(' % re.escape(n), body_b)
                if hit:
                    called.append(n)
                    self.new_fn_callers.setdefault(nk, []).append(f.key)
            if called:
                self.lose(f, 'calls function(s) that are new in this tree and carry no contract: %s' % ', '.join(called))
        if c is None and not (self.canary and f.has_body):
            return edits
        retname = (c.ret if c and c.ret else 'res')
        has_spec = c is not None and (c.requires or c.ensures)
        want_ret = f.ret_span is not None and has_spec
        if want_ret and not (f.ctx_kind == 'impl' and f.ctx_trait and not (c and c.ensures)):
            r0, r1 = f.ret_span
            edits.append((r0, r1, '(%s: %s)' % (retname, text[r0:r1])))
        # contract text
        spec_lines = []
        if c is not None:
            is_trait_impl = f.ctx_kind == 'impl' and f.ctx_trait
            if c.requires:
                if is_trait_impl:
                    raise LostAnchor('requires on trait impl method %s' % f.key)
                spec_lines.append(('    requires', None))
                for lab, t in c.requires:
                    spec_lines.append(('        ' + t.replace('\n', '\n        ') + ',', lab))
            if c.ensures:
                spec_lines.append(('    ensures', None))
                for lab, t in c.ensures:
                    spec_lines.append(('        ' + t.replace('\n', '\n        ') + ',', lab))
        if self.canary and f.has_body and not (c and c.external_body):
            # vacuity canary: `assert(false)` as the first statement must FAIL; if it verifies, the function's
            # preconditions (own or inherited from a trait) or the global axioms are contradictory.  It is an
            # assertion inside the body, so callers are not affected.
            edits.append((f.body_open + 1, f.body_open + 1,
                          self.render_labelled([(' proof { assert(false); }', {'props': [], 'secondary': [], 'deps': [], 'name': 'canary:' + f.key})], f.key)))
        if spec_lines:
            ins = '\n' + self.render_labelled(spec_lines, f.key) + '\n'
            pos = f.sig_end
            # trim trailing whitespace before `{` / `;`
            p = pos
            while p > 0 and b[p - 1].isspace():
                p -= 1
            edits.append((p, pos, ins))
        if c is None:
            return edits
        # attributes
        attrs = list(c.attrs)
        if c.external_body:
            attrs.append('#[verifier::external_body]')
        if attrs:
            ind = re.match(r'[ \t]*', text[f.line_start:]).group(0)
            edits.append((f.line_start, f.line_start, ''.join('%s%s%s\n' % (ind, a, TAG) for a in attrs)))
        if not f.has_body:
            if c.loops or c.closures or c.inserts:
                raise LostAnchor('body annotations on bodiless fn %s' % f.key)
            return edits
        lo, hi = f.body_open + 1, f.body_close
        if f.key in self.skip_body and not c.external_body:
            self.lose(f, 'body annotations dropped: they no longer type-check against the current body')
            if rs.find_loops(b, lo, hi):
                # without its invariants a loop has no `decreases`; let the rest of the image be verified
                # (termination of this function is then undecided and reported as such)
                ind = re.match(r'[ \t]*', text[f.line_start:]).group(0)
                edits.append((f.line_start, f.line_start, '%s#[verifier::exec_allows_no_decreases_clause]%s\n' % (ind, TAG)))
            return edits
        if c.external_body:
            # D8: body is outside the image; dropped, recorded
            self.ext_bodies.append(f.key)
            if re.search(r'vf_debug_assert\(|vf_cfg_debug_assertions\(', text[lo:hi]):
                # the Kani harness that discharges this contract runs with debug assertions ON: a guard that exists
                # only in debug builds would be taken for a real one.  The contract counts as unverified.
                self.lose(f, 'body outside the image contains code that depends on debug_assertions')
                if f.key not in self.forced:
                    self.forced.append(f.key)
            edits.append((lo, hi, ' unimplemented!() '))
            count('D8')
            return edits
        # loops
        if c.loops:
            loops = rs.find_loops(b, lo, hi)
            for k, spec in c.loops.items():
                if k < 1 or k > len(loops):
                    self.lose(f, 'loop %d not found (%d loops)' % (k, len(loops)))
                    continue
                kwpos, kw, bo, bc = loops[k - 1]
                if spec['binder']:
                    if kw != 'for':
                        self.lose(f, 'binder on non-for loop %d' % k)
                        continue
                    mi = re.search(r'\bin\b', b[kwpos:bo])
                    p = kwpos + mi.end()
                    edits.append((p, p, ' %s:' % spec['binder']))
                sl = []
                for name in ('invariant_except_break', 'invariant', 'ensures', 'decreases'):
                    if spec[name]:
                        sl.append(('    ' + name, None))
                        for lab, t in spec[name]:
                            sl.append(('        ' + t.replace('\n', '\n        ') + ',', lab or (c.proof_label if name != 'decreases' else None)))
                p = bo
                while p > 0 and b[p - 1].isspace():
                    p -= 1
                edits.append((p, bo, '\n' + self.render_labelled(sl, f.key) + '\n'))
        # closures
        if c.closures:
            cls = rs.find_closures(b, lo, hi)
            for k, spec in c.closures.items():
                if isinstance(k, str):
                    hit = [cl0 for cl0 in cls if k[1:] in text[cl0['body'][0]:cl0['body'][1]]]
                    if not hit:
                        self.lose(f, 'closure containing "%s" not found' % k[1:])
                        continue
                    cl = hit[0]
                else:
                    if k < 1 or k > len(cls):
                        self.lose(f, 'closure %d not found (%d closures)' % (k, len(cls)))
                        continue
                    cl = cls[k - 1]
                if spec['params'] is not None:
                    edits.append((cl['params'][0], cl['params'][1], spec['params']))
                sl = []
                for name in ('requires', 'ensures'):
                    if spec[name]:
                        sl.append((' ' + name, None))
                        for lab, t in spec[name]:
                            sl.append((' ' + t + ',', lab))
                head = ' -> (%s)' % spec['ret'] if spec['ret'] else ''
                pe = cl['params'][1] + 1
                a, e = cl['body']
                if cl['block']:
                    edits.append((pe, a, head + self.render_labelled(sl, f.key, inline=True) + ' '))
                else:
                    edits.append((pe, a, head + self.render_labelled(sl, f.key, inline=True) + ' { '))
                    edits.append((e, e, ' }'))
        # inserts
        for where, anchor, occ, lab, t in c.inserts:
            body_txt = text[lo:hi]
            rendered = self.render_labelled([(ln, lab or c.proof_label) for ln in t.split('\n') if ln.strip()], f.key)
            if where == 'body-start':
                edits.append((lo, lo, '\n' + rendered + '\n'))
                continue
            if where == 'body-end':
                p = hi
                edits.append((p, p, '\n' + rendered + '\n'))
                continue
            idx = -1
            start = 0
            for _ in range(occ):
                idx = body_txt.find(anchor, start)
                if idx < 0:
                    break
                start = idx + 1
            if idx < 0:
                self.lose(f, 'anchor "%s" (#%d) not found' % (anchor, occ))
                continue
            if occ == 1 and body_txt.find(anchor, idx + 1) >= 0 and False:
                pass
            apos = lo + idx
            if where == 'before':
                p = text.rfind('\n', 0, apos) + 1
                edits.append((p, p, rendered + '\n'))
            else:
                # after the statement that starts at the anchor: up to the `;` or block end at depth 0
                k = apos
                while k < hi:
                    ch = b[k]
                    if ch in '([{':
                        k2 = rs.match_bracket(b, k)
                        if ch == '{':
                            # a block statement ends here if the next significant char is not ; . ? or an operator
                            nx = rs.skip_ws(b, k2 + 1)
                            if b[nx] not in ';.?)' and not b.startswith('else', nx):
                                k = k2
                                break
                        k = k2 + 1
                        continue
                    if ch == ';':
                        break
                    k += 1
                p = k + 1
                edits.append((p, p, '\n' + rendered))
        return edits

    def render_labelled(self, spec_lines, fnkey, inline=False):
        """spec_lines: list of (text, label|None).  Each becomes one or more generated lines, tagged so that
        the line map can be built after assembly: a marker comment `//@L<idx>` is appended."""
        out = []
        for t, lab in spec_lines:
            if lab is not None:
                idx = len(self.labels)
                self.labels.append({'label': lab, 'fn': fnkey})
                parts = t.split('\n')
                parts = [p + ' //@L%d' % idx for p in parts]
                out.append('\n'.join(parts))
            else:
                out.append('\n'.join(p + TAG for p in t.split('\n')))
        return '\n'.join(out) if not inline else '\n' + '\n'.join(out) + '\n'

    # -- one file -----------------------------------------------------------------------------
    def process_file(self, path, modpath):
        rel = os.path.relpath(path, self.src_root)
        original = open(path).read()
        text = apply_rules(original, rel)
        extra = d3_standins(text) + d3_generic(original) + d2_enum_dispatch(text)
        fns, blocks = rs.scan_items(text, modpath)
        extra += self.from_companions(text, blocks, modpath)
        b, _ = rs.blank(text)
        edits = []
        # functions inside impls the image marks `#[verifier::external]` (R13) are outside the verified text altogether
        ext_ranges = []
        for m in re.finditer(r'#\[verifier::external\]\s*impl\b[^{;]*\{', b):
            ext_ranges.append((m.start(), rs.match_bracket(b, m.end() - 1)))
        for f in fns:
            if any(lo <= f.kw <= hi for lo, hi in ext_ranges):
                continue
            self.fn_index.append(f.key)
            c = self.contracts.get(f.key)
            if c is not None:
                c.used = True
            if f.key in self.force_external and f.has_body:
                if c is None:
                    c = FnC(f.key)
                    c.src = '<forced external>'
                if not c.external_body:
                    c.external_body = True
                    self.forced.append(f.key)
            edits += self.splice_fn(text, b, f, c)
        # impl items
        for n, (mp, hdr, t) in enumerate(self.impl_items):
            if mp != modpath:
                continue
            found = False
            for blk in blocks:
                if blk.kind in ('impl', 'trait') and rs.norm(re.sub(r'#\[[^\]]*\]', ' ', blk.header)).startswith(hdr):
                    edits.append((blk.open + 1, blk.open + 1, '\n' + '\n'.join(l + TAG for l in t.split('\n') if l.strip()) + '\n'))
                    found = True
                    self.used_impl_items.add(n)
                    break
            if not found:
                raise LostAnchor('impl/trait block "%s" not found in module %s' % (hdr, modpath))
        # check overlaps and apply
        edits.sort(key=lambda e: (e[0], e[1]))
        for a, c2 in zip(edits, edits[1:]):
            if a[1] > c2[0]:
                raise LostAnchor('overlapping edits in %s at %d' % (rel, c2[0]))
        for s, e, r in reversed(edits):
            text = text[:s] + r + text[e:]
        text += '\n'.join(l + TAG for l in extra.split('\n')) if extra else ''
        for n, (mp, t) in enumerate(self.items):
            if mp == modpath:
                text += '\n' + '\n'.join(l + TAG for l in t.split('\n')) + '\n'
                self.used_items.add(n)
        self.record_audit(rel, original, text)
        # module inlining
        out = ''
        pos = 0
        b2, _ = rs.blank(text)
        me = os.path.splitext(os.path.basename(path))[0]
        dirpath = os.path.dirname(path)
        subdir = dirpath if me in ('lib', 'mod') else os.path.join(dirpath, me)
        for m in re.finditer(r'^([ \t]*)(pub(?:\([a-z]+\))?\s+)?mod\s+([a-z_0-9]+);[ \t]*$', b2, flags=re.M):
            code = text[pos:m.start()]
            if code.strip():
                out += 'verus! {\n' + code + '\n} // verus!\n'
            vis, name = m.group(2) or '', m.group(3)
            a = os.path.join(subdir, name + '.rs')
            bb = os.path.join(subdir, name, 'mod.rs')
            fp = a if os.path.exists(a) else bb
            if not os.path.exists(fp):
                raise LostAnchor('module file for %s not found' % name)
            sub_mp = (modpath + '::' if modpath else '') + name
            out += '%smod %s {\nuse vstd::prelude::*;\n#[allow(unused_imports)] use crate::vf_prelude::*;\n#[allow(unused_imports)] use crate::vf_spec::*;\n#[allow(unused_imports)] use crate::md5;\nverus! { broadcast use crate::vf_spec::group_spec_seq; }\n' % (vis, name)
            out += self.process_file(fp, sub_mp)
            out += '} // mod %s\n' % name
            pos = m.end()
        code = text[pos:]
        if code.strip():
            out += 'verus! {\n' + code + '\n} // verus!\n'
        return out

    def from_companions(self, text, blocks, modpath):
        """vstd gives `From::from` the postcondition `obeys_from_spec() ==> r == from_spec(a)`; every user impl
        needs a `FromSpecImpl` companion.  Unless a sidecar supplies one, the generated companion says nothing
        (obeys == false), so no behaviour is assumed."""
        manual = ' '.join(t for mp, t in self.items if mp == modpath)
        manual = re.sub(r'\s+', '', manual)
        out = ''
        for blk in blocks:
            if blk.kind != 'impl' or not blk.trait or not blk.trait.startswith('From<'):
                continue
            hdr = rs.norm(re.sub(r'#\[[^\]]*\]', ' ', blk.header))
            m = re.match(r'impl(<[^>]*>)?\s*From<(.*)>\s+for\s+(.*)$', hdr)
            if not m:
                raise LostAnchor('cannot parse From impl header: %s' % hdr)
            gen, a, bt = m.group(1) or '', m.group(2).strip(), m.group(3).strip()
            if ('FromSpecImpl<%s>for%s' % (re.sub(r'\s+', '', a), re.sub(r'\s+', '', bt))) in manual:
                continue
            count('FromSpecImpl')
            out += ('impl%s vstd::std_specs::convert::FromSpecImpl<%s> for %s {\n'
                    '    open spec fn obeys_from_spec() -> bool { false }\n'
                    '    uninterp spec fn from_spec(v: %s) -> %s;\n}\n') % (gen, a, bt, a, bt)
        return out

    def record_audit(self, rel, original, emitted):
        o = [l.strip() for l in original.split('\n')]
        e = [re.sub(r'\s*//@L\d+$', '', l).strip() for l in emitted.split('\n') if not l.rstrip().endswith(TAG.strip()) and not re.search(r'//@L\d+$', l)]
        o = [l for l in o if l]
        e = [l for l in e if l]
        sm = difflib.SequenceMatcher(None, o, e, autojunk=False)
        verb = rew = drop = 0
        dropped_comment = 0
        for tag, i1, i2, j1, j2 in sm.get_opcodes():
            if tag == 'equal':
                verb += i2 - i1
            elif tag == 'replace':
                rew += i2 - i1
            elif tag == 'delete':
                for l in o[i1:i2]:
                    if l.startswith('//'):
                        dropped_comment += 1
                    else:
                        drop += 1
        self.audit[rel] = {'source_lines': len(o), 'verbatim': verb, 'rewritten_by_rule': rew,
                           'dropped_by_rule': drop, 'dropped_comment_lines': dropped_comment}

    # -- whole image --------------------------------------------------------------------------
    def prescan_new_functions(self):
        """Functions that are not in the inventory of the tree the contracts were written for (vf/known_fns.txt):
        new helpers carry no contract, so a caller's proof cannot see what they return."""
        inv_path = os.path.join(HERE, 'known_fns.txt')
        if not os.path.exists(inv_path):
            return
        known = set(open(inv_path).read().split('\n'))
        found = []

        def walk(path, modpath):
            text = apply_rules(open(path).read(), path)
            fns, _ = rs.scan_items(text, modpath)
            found.extend(f.key for f in fns)
            b2, _ = rs.blank(text)
            me = os.path.splitext(os.path.basename(path))[0]
            dirpath = os.path.dirname(path)
            subdir = dirpath if me in ('lib', 'mod') else os.path.join(dirpath, me)
            for m in re.finditer(r'^([ \t]*)(pub(?:\([a-z]+\))?\s+)?mod\s+([a-z_0-9]+);[ \t]*$', b2, flags=re.M):
                name = m.group(3)
                a = os.path.join(subdir, name + '.rs')
                bb = os.path.join(subdir, name, 'mod.rs')
                fp = a if os.path.exists(a) else bb
                if os.path.exists(fp):
                    walk(fp, (modpath + '::' if modpath else '') + name)
        walk(os.path.join(self.src_root, 'lib.rs'), '')
        self.known_fn_names = {k.split('::')[-1] for k in known if k}
        self.new_fn_keys = sorted(k for k in found if k not in known or k in getattr(self, 'extra_new', ()))
        self.new_fn_names = sorted({k.split('::')[-1] for k in self.new_fn_keys})
        self.new_fn_callers = {k: [] for k in self.new_fn_keys}
        RULES_APPLIED.clear()

    def generate(self, prelude_text, spec_text):
        self.labels = []
        self.closure_inventory = {}
        kc = os.path.join(HERE, 'known_closures.json')
        self.known_closures = json.load(open(kc)) if os.path.exists(kc) else None
        self.new_fn_names = []
        self.new_fn_keys = []
        self.new_fn_callers = {}
        self.prescan_new_functions()
        body = self.process_file(os.path.join(self.src_root, 'lib.rs'), '')
        # a contracted function that no longer exists (renamed, inlined, removed): its contract is dropped and the
        # properties it was primary for are reported INCONCLUSIVE by the runner; the other properties are still decided
        self.missing = sorted(k for k, c in self.contracts.items() if not c.used)
        if len(self.missing) > 12:
            raise LostAnchor('%d contract keys have no function in the tree (layout changed?): %s ...' % (len(self.missing), ', '.join(self.missing[:5])))
        for n, (mp, _) in enumerate(self.items):
            if n not in self.used_items:
                raise LostAnchor('@items target module not found: %s' % mp)
        head = '#![allow(unused_imports, dead_code, unused_variables, unused_mut, unused_parens, unused_braces, non_snake_case, unused_assignments, unused_unsafe)]\nuse vstd::prelude::*;\n'
        # labels inside prelude / spec (lemmas) are processed too
        pre = self.render_static(prelude_text, 'vf_prelude')
        if self.canary:
            spec_text = spec_text.replace('//@@GENERATED_SPEC_TABLE@@', '//@@GENERATED_SPEC_TABLE@@') 
            spec_text = re.sub(r'\} // verus!\n\} // mod vf_spec', 'pub proof fn vf_global_canary()\n    ensures false, //[C00:canary:<global axioms>]\n{\n    broadcast use group_spec_seq;\n    broadcast use crate::md5::axiom_md5_len;\n}\n} // verus!\n} // mod vf_spec', spec_text)
        spec = self.render_static(spec_text, 'vf_spec')
        image = head + pre + '\n' + spec + '\n' + body + '\nfn main() {}\n'
        # line map
        lines = image.split('\n')
        linemap = {}
        for i, l in enumerate(lines, 1):
            m = re.search(r'//@L(\d+)\s*$', l)
            if m:
                linemap[i] = int(m.group(1))
        # function line ranges (by scanning the image itself)
        fnranges = self.fn_ranges(image)
        return image, {'labels': self.labels, 'linemap': linemap, 'fn_ranges': fnranges}

    def render_static(self, text, name):
        """prelude/spec text may carry `//[Cxx:label]` markers at end of a line (lemma ensures)."""
        out = []
        for ln in text.split('\n'):
            m = re.search(r'//\s*(\[[^\]]*\])\s*$', ln)
            if m:
                lab, _ = parse_labels(m.group(1) + ' x')
                if lab:
                    idx = len(self.labels)
                    self.labels.append({'label': lab, 'fn': name})
                    ln = ln[:m.start()].rstrip() + ' //@L%d' % idx
            out.append(ln)
        return '\n'.join(out)

    def fn_ranges(self, image):
        """[(first_line, last_line, name)] for every fn (exec/proof/spec) in the image, by brace matching."""
        b, _ = rs.blank(image)
        res = []
        # line offsets
        offs = [0]
        for m in re.finditer('\n', image):
            offs.append(m.end())
        import bisect

        def line_of(p):
            return bisect.bisect_right(offs, p)
        for m in re.finditer(r'\bfn\s+([A-Za-z_][A-Za-z0-9_]*)', b):
            j = m.end()
            # find `{` or `;` at depth 0
            k = j
            n = len(b)
            try:
                while k < n:
                    ch = b[k]
                    if ch in '([':
                        k = rs.match_bracket(b, k) + 1
                        continue
                    if ch == '{':
                        # could be a `{` inside requires/ensures expression `({ ... })` -> handled by '(' above
                        e = rs.match_bracket(b, k)
                        # heuristically: spec-block braces inside ensures (`match x { .. }`)? tolerate
                        res.append((line_of(m.start()), line_of(e), m.group(1), line_of(k)))
                        break
                    if ch == ';':
                        res.append((line_of(m.start()), line_of(k), m.group(1), line_of(k)))
                        break
                    k += 1
            except rs.ScanError:
                continue
        return res


def read_contract_sources(vf_dir):
    srcs = []
    cdir = os.path.join(vf_dir, 'contracts')
    for fn in sorted(os.listdir(cdir)):
        if fn.endswith('.vfc'):
            srcs.append((fn, open(os.path.join(cdir, fn)).read()))
    return srcs


def build_image(repo_src='/repo/src', vf_dir=HERE, canary=False, extra_sidecars=None, skip_body=(), force_external=(), drop_statics=(), drop_contract=(), opaque_consts=()):
    RULES_APPLIED.clear()
    DROP_STATICS.clear()
    DROP_STATICS.update(drop_statics)
    OPAQUE_CONSTS.clear()
    OPAQUE_CONSTS.update(opaque_consts)
    import spec_table
    srcs = read_contract_sources(vf_dir)
    srcs.append(('<spec_table>', spec_table.generated_sidecar()))
    if extra_sidecars:
        srcs += extra_sidecars
    contracts, items, impl_items = load_sidecars(srcs)
    # a contract the front end rejects against the function's CHANGED SIGNATURE (by-value instead of by-reference, ...)
    # is dropped: the function is then treated like one that is new in the tree (callers degrade, failures inside it
    # are witness-decided) and the properties its clauses were primary for are inconclusive
    dropped = {}
    for k in drop_contract:
        c0 = contracts.pop(k, None)
        if c0 is not None:
            dropped[k] = sorted({p for lab, _ in c0.requires + c0.ensures if lab for p in lab['props']} | set((c0.safety or {}).get('props', [])))
    g = Gen(repo_src, contracts, items, impl_items, canary=canary)
    g.extra_new = set(dropped)
    g.skip_body = set(skip_body)
    g.force_external = set(force_external)
    prelude = open(os.path.join(vf_dir, 'prelude.rs')).read()
    spec = open(os.path.join(vf_dir, 'speclib.rs')).read().replace('//@@GENERATED_SPEC_TABLE@@', spec_table.generated_spec())
    image, maps = g.generate(prelude, spec)
    maps['audit'] = g.audit
    maps['rules_applied'] = dict(RULES_APPLIED)
    maps['fn_index'] = g.fn_index
    maps['external_bodies'] = g.ext_bodies
    maps['lost_anchors'] = g.lost
    maps['forced_external'] = g.forced
    maps['new_functions'] = getattr(g, 'new_fn_callers', {})
    maps['closure_inventory'] = getattr(g, 'closure_inventory', {})
    maps['missing_functions'] = {k: sorted({p for lab, _ in contracts[k].requires + contracts[k].ensures if lab for p in lab['props']})
                                 for k in getattr(g, 'missing', [])}
    maps['dropped_statics'] = sorted(DROP_STATICS)
    maps['opaque_consts'] = sorted(OPAQUE_CONSTS)
    maps['dropped_contracts'] = dropped
    for k, ps in dropped.items():
        maps['missing_functions'][k] = ps
    maps['contracts'] = {k: {'src': c.src, 'external_body': c.external_body,
                             'n_requires': len(c.requires), 'n_ensures': len(c.ensures),
                             'safety': c.safety} for k, c in contracts.items()}
    return image, maps


if __name__ == '__main__':
    import argparse
    ap = argparse.ArgumentParser()
    ap.add_argument('--src', default='/repo/src')
    ap.add_argument('--out', required=True)
    ap.add_argument('--canary', action='store_true')
    ap.add_argument('--write-inventory', action='store_true', help='(re)write vf/known_fns.txt and vf/known_closures.json from --src')
    a = ap.parse_args()
    if a.write_inventory:
        for fn in ('known_closures.json',):
            if os.path.exists(os.path.join(HERE, fn)):
                os.remove(os.path.join(HERE, fn))
        image, maps = build_image(a.src)
        open(os.path.join(HERE, 'known_fns.txt'), 'w').write('\n'.join(sorted(maps['fn_index'])) + '\n')
        json.dump({k: v for k, v in sorted(maps['closure_inventory'].items()) if v}, open(os.path.join(HERE, 'known_closures.json'), 'w'), indent=1)
        print('inventory: %d functions, %d closures' % (len(maps['fn_index']), sum(len(v) for v in maps['closure_inventory'].values())))
        sys.exit(0)
    try:
        image, maps = build_image(a.src, canary=a.canary)
    except (LostAnchor, rs.ScanError) as e:
        print('INCONCLUSIVE: generator: %s' % e)
        sys.exit(2)
    open(a.out, 'w').write(image)
    json.dump(maps, open(a.out + '.map.json', 'w'), indent=1)
    print('image: %d lines, %d labelled clauses, %d fns' % (image.count('\n'), len(maps['labels']), len(maps['fn_index'])))
