#!/usr/bin/env python3
"""Prints the markdown table of DESIGN.md section 9 from seeded/*/meta.json."""
import json, glob, os, re
VERIF = os.path.dirname(os.path.dirname(os.path.abspath(__file__)))
rows = []
for d in sorted(glob.glob(os.path.join(VERIF, 'seeded', '*'))):
    mp = os.path.join(d, 'meta.json')
    if not os.path.exists(mp):
        continue
    m = json.load(open(mp))
    readme = open(os.path.join(d, 'README.md')).read() if os.path.exists(os.path.join(d, 'README.md')) else ''
    files = sorted(set(re.findall(r'^\+\+\+ b/(\S+)', open(os.path.join(d, 'patch.diff')).read(), flags=re.M)))
    c = m['checks']
    rows.append('| %s | %s | %s | %s | %s | %s | %s |' % (
        m['id'], m['breaks_property'], ', '.join(os.path.basename(f) for f in files), m.get('essence', ''),
        'yes' if m['detected_by_own_property_check'] else '**no**',
        ', '.join(a + ('°' if a in c.get('alarms_without_failing_input', []) else '') for a in c['alarms']),
        ', '.join(c['inconclusive'])))
print('| id | seeded against | file | essence | own check alarms | all alarms (° = no-failing-input-found) | inconclusive |')
print('|---|---|---|---|---|---|---|')
print('\n'.join(rows))
