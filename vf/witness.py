"""Replay files, concrete witness search, and `./check --replay`."""
import json
import os
import re
import subprocess
import time

HERE = os.path.dirname(os.path.abspath(__file__))
VERIF = os.path.dirname(HERE)
REPLAY_DIR = os.path.join(VERIF, 'replays')
REPLAY_CRATE = os.path.join(HERE, 'replay')


def build_replay_tool(profile='debug'):
    """Build the replay/search tool against the tree under verification.  For /repo the crate in vf/replay is
    used as is; for a scratch tree (VF_REPO, self-test) a copy with the path dependency rewritten is built."""
    env = dict(os.environ)
    env['CARGO_NET_OFFLINE'] = 'true'
    repo = os.environ.get('VF_REPO', '/repo')
    crate = REPLAY_CRATE
    if os.path.realpath(repo) != '/repo':
        crate = os.path.join(repo, '.vf_replay')
        if not os.path.exists(crate):
            subprocess.check_call(['rsync', '-a', '--exclude', 'target', REPLAY_CRATE + '/', crate + '/'])
            t = open(os.path.join(crate, 'Cargo.toml')).read().replace('path = "/repo"', 'path = "%s"' % repo)
            open(os.path.join(crate, 'Cargo.toml'), 'w').write(t)
    p = subprocess.run(['cargo', 'build', '--offline', '--quiet'] + (['--release'] if profile == 'release' else []),
                       cwd=crate, capture_output=True, text=True, env=env)
    exe = os.path.join(crate, 'target', profile, 'vf_replay')
    if p.returncode != 0 or not os.path.exists(exe):
        return None, p.stderr[-2000:]
    return exe, ''


def run_replay(args, profile='debug'):
    exe, err = build_replay_tool(profile)
    if not exe:
        return {'error': 'replay tool did not build against the current tree: ' + err}
    try:
        p = subprocess.run([exe] + args, capture_output=True, text=True, timeout=60)
        return {'args': args, 'output': p.stdout[-4000:]}
    except subprocess.TimeoutExpired:
        return {'args': args, 'output': 'TIMEOUT (possible non-termination)'}


def write_replay(prop, names, failure, witness, vr, note=None):
    os.makedirs(REPLAY_DIR, exist_ok=True)
    path = os.path.join(REPLAY_DIR, '%s_%d_%d.json' % (prop, int(time.time()), os.getpid()))
    doc = {
        'property': prop,
        'failed_obligations': names if isinstance(names, list) else [names],
        'function': failure.get('fn'),
        'verifier_message': failure.get('message'),
        'verifier_output': failure.get('rendered', '')[-6000:],
        'generated_lines': failure.get('lines', [])[:10],
        'note': note,
        'witness': witness,
        'failing_input_found': bool(witness and witness.get('failing_input')),
        'how_to_replay': './check --replay %s' % path,
    }
    json.dump(doc, open(path, 'w'), indent=1)
    return path


def search(prop, names, failure, repo):
    """Deterministic concrete witness search on the REAL crate (never turns a failure into a pass)."""
    try:
        import witness_search
        return witness_search.search(prop, names, failure, repo)
    except ImportError:
        return None
    except Exception as e:  # the search is best-effort
        return {'failing_input': None, 'search_error': repr(e)}


def from_kani(prop, h, repo):
    pb = h.get('playback') or ''
    vals = re.findall(r'//\s*(-?\d+[a-z0-9]*)\s*\n\s*vec!\[([^\]]*)\]', pb)
    failed = re.findall(r'Failed Checks: (.*)', h.get('output', ''))
    w = {'kind': 'kani', 'harness': h['name'], 'failed_checks': failed[:5],
         'concrete_values': [{'value': a, 'bytes': b} for a, b in vals][:40],
         'failing_input': {'harness': h['name'], 'values': [a for a, _ in vals][:40]} if vals else None}
    try:
        import witness_search
        extra = witness_search.replay_for_harness(h['name'], [a for a, _ in vals], repo)
        if extra:
            w['real_code'] = extra
    except Exception:
        pass
    return w


def replay_file(path):
    doc = json.load(open(path))
    print('property: %s' % doc['property'])
    print('failed obligation(s): %s' % ', '.join(doc['failed_obligations']))
    print('verifier: %s' % doc.get('verifier_message'))
    w = doc.get('witness') or {}
    cmds = []
    if w.get('replay_args'):
        cmds.append(w['replay_args'])
    for c in w.get('real_code', {}).get('commands', []) if isinstance(w.get('real_code'), dict) else []:
        cmds.append(c)
    if not cmds:
        print('no failing input attached (no-failing-input-found); verifier output follows')
        print(doc.get('verifier_output', ''))
        return 1
    for c in cmds:
        r = run_replay(c)
        print(r.get('output') or r.get('error'))
    return 1
