//! Witness searches C01 .. C10.  Each checks the property STATEMENT on the real crate; the reference
//! (src/reference.rs) is the oracle where the statement needs one.
use crate::corpus::*;
use crate::ensure;
use crate::ops::*;
use crate::reference as rf;
use crate::reference::{AvpV, CtlV, DataV, MsgV};
use crate::search::{fail, CaseResult, Ctx};
use crate::util::*;
use rl2tp::avp::AVP;
use rl2tp::common::{DecodeError, Reader, SliceReader, Writer};
use rl2tp::{ControlMessage, Message};

fn entries_all() -> Vec<Entry> {
    let mut v: Vec<Entry> = all_opts().into_iter().map(Some).collect();
    v.push(None);
    v
}
fn entries_few() -> Vec<Entry> {
    vec![Some(NONE), Some(STRICT), None]
}
fn show<T: std::fmt::Debug>(x: &T) -> String {
    clip(&format!("{x:?}"), 700)
}
fn spec_entry(b: &[u8], e: &Entry) -> Option<(MsgV, usize)> {
    match e {
        Some(o) => rf::message(b, o.r, o.v, o.u),
        None => rf::message(b, false, true, false),
    }
}
fn mt_value(code: u64) -> AvpV {
    let mut v = AvpV::new(0);
    v.i0 = code;
    v
}

// =====================================================================================================
// C01  decoding is total
pub fn c01(ctx: &mut Ctx) {
    let check_msg = |b: &[u8], e: &Entry| -> CaseResult {
        let (res, _) = dec_msg(b, e);
        match res {
            Ok(_) => Ok(()),
            Err(l) => {
                ensure!(!l.is_empty(), "Ok(_) or Err(non-empty list)", "Err([])");
                Ok(())
            }
        }
    };
    let mut corpus = message_corpus();
    corpus.extend(control_single_avp_corpus());
    for (name, b) in &corpus {
        for e in entries_all() {
            ctx.case(&format!("{name}/{}", entry_text(&e)), &|| format!("decode-message {} {}", hexz(b), entry_text(&e)), || check_msg(b, &e));
        }
    }
    for (name, b) in &mutated_corpus() {
        for e in [Some(STRICT), Some(NONE)] {
            ctx.case(&format!("{name}/{}", entry_text(&e)), &|| format!("decode-message {} {}", hexz(b), entry_text(&e)), || check_msg(b, &e));
        }
    }
    // every flag word in front of a control-shaped and a data-shaped remainder
    let tails: [&[u8]; 3] = [&[0, 12, 0, 1, 0, 2, 0, 3, 0, 4], &[0, 9, 0, 1, 0, 2, 0xaa], &[0, 20, 0, 1, 0, 2, 0, 3, 0, 4, 0, 8, 0, 0, 0, 0, 0, 1]];
    for w in 0..=65535u16 {
        for (ti, t) in tails.iter().enumerate() {
            let mut b = w.to_be_bytes().to_vec();
            b.extend_from_slice(t);
            let e = Some(if w % 2 == 0 { NONE } else { STRICT });
            ctx.case(&format!("word-{w:04x}-tail{ti}"), &|| format!("decode-message {} {}", hexz(&b), entry_text(&e)), || check_msg(&b, &e));
        }
    }
    for (i, b) in noise(20000, 64).iter().enumerate() {
        for e in entries_few() {
            ctx.case(&format!("noise{i}/{}", entry_text(&e)), &|| format!("decode-message {} {}", hexz(b), entry_text(&e)), || check_msg(b, &e));
        }
        ctx.case(&format!("noise{i}/avps"), &|| format!("decode-avps {}", hexz(b)), || {
            let _ = dec_avps(b);
            Ok(())
        });
    }
    // large inputs
    let mut large: Vec<(String, Vec<u8>)> = vec![];
    large.push(("zeros-65535".into(), vec![0; 65535]));
    large.push(("ff-65535".into(), vec![0xff; 65535]));
    let many39: Vec<u8> = rec(39, &[]).iter().cycle().take(6 * 10920).cloned().collect();
    large.push(("ctl-10920-records".into(), control_wire(W_CONTROL, (12 + many39.len()) as u16, [1, 2, 3, 4], &many39)));
    let mut maxb = rec(0, &[0, 1]);
    for i in 0..64 {
        maxb.extend(rec(7, &pat(1017, i)));
    }
    maxb.extend(rec(11, &pat(37, 1)));
    large.push(("ctl-65535".into(), control_wire(W_CONTROL, 65535, [1, 2, 3, 4], &maxb)));
    large.extend(large_offset_datas());
    for (name, b) in &large {
        for e in entries_few() {
            ctx.case(&format!("{name}/{}", entry_text(&e)), &|| format!("decode-message {} {}", hexz(b), entry_text(&e)), || check_msg(b, &e));
        }
        ctx.case(&format!("{name}/avps"), &|| format!("decode-avps {}", hexz(b)), || {
            let _ = dec_avps(b);
            Ok(())
        });
    }
    // bare AVP lists
    let mut lists = avp_list_corpus(3);
    lists.push(("many39".into(), many39.clone()));
    for (name, b) in &lists {
        ctx.case(&format!("avps-{name}"), &|| format!("decode-avps {}", hexz(b)), || {
            let _ = dec_avps(b);
            Ok(())
        });
    }
}

// =====================================================================================================
// C02  no read outside the input, whatever reader backs the decoder
fn same_msg(a: &MsgRes<Vec<u8>>, b: &MsgRes<&[u8]>) -> bool {
    match (a, b) {
        (Ok(x), Ok(y)) => rf::view_message(x) == rf::view_message(y),
        (Err(x), Err(y)) => x == y,
        _ => false,
    }
}
pub fn c02(ctx: &mut Ctx) {
    let mut corpus = message_corpus();
    corpus.extend(control_single_avp_corpus());
    for (name, b) in &corpus {
        for e in entries_few() {
            ctx.case(&format!("{name}/{}", entry_text(&e)), &|| format!("alt-reader message {} {}", hexz(b), entry_text(&e)), || {
                let (s, srem) = dec_msg(b, &e);
                for rot in [0usize, 3] {
                    let (a, arem) = alt_dec_msg(b, &e, rot);
                    ensure!(same_msg(&a, &s) && arem == srem, format!("as with SliceReader: {} remaining {srem}", show(&s)), format!("second reader: {} remaining {arem}", show(&a)));
                }
                Ok(())
            });
        }
    }
    for (name, b) in &avp_list_corpus(3) {
        ctx.case(&format!("avps-{name}"), &|| format!("alt-reader avps {}", hexz(b)), || {
            let (s, srem) = dec_avps(b);
            for rot in [0usize, 3] {
                let (a, arem) = alt_dec_avps(b, rot);
                ensure!(a == s && arem == srem, format!("as with SliceReader: {} remaining {srem}", show(&s)), format!("second reader: {} remaining {arem}", show(&a)));
            }
            Ok(())
        });
    }
    // per-type decoders on bare payloads
    for kind in rf::assigned_kinds() {
        for (i, p) in payloads_of(kind, true).iter().enumerate() {
            ctx.case(&format!("type{kind}-p{i}-len{}", p.len()), &|| format!("alt-reader type:{kind} {}", hexz(p)), || {
                let s = dec_type_slice(kind, p);
                for rot in [0usize, 3] {
                    let a = dec_type_alt(kind, p, rot);
                    ensure!(a == s, format!("as with SliceReader: {}", show(&s)), format!("second reader: {}", show(&a)));
                }
                Ok(())
            });
        }
    }
    // reveal builds its own SliceReader: a violated precondition shows as a panic
    for rc in crate::props_b::reveal_cases() {
        ctx.case(&format!("reveal-{}", rc.name), &|| rc.replay(), || {
            let _ = rc.run();
            Ok(())
        });
    }
}

// =====================================================================================================
// C03  control messages and all AVP kinds survive encode then decode
pub fn round_trip_controls() -> Vec<(String, CtlV)> {
    let mut out: Vec<(String, CtlV)> = vec![];
    let ctl = |ids: [i64; 4], avps: Vec<AvpV>| CtlV { length: 0, tunnel: ids[0], session: ids[1], ns: ids[2], nr: ids[3], avps };
    for ids in [[0i64, 0, 0, 0], [65535, 65535, 65535, 65535], [1, 2, 3, 4], [0x0102, 0x0304, 0x0506, 0x0708], [65535, 0, 0, 0], [0, 65535, 0, 0], [0, 0, 65535, 0], [0, 0, 0, 65535]] {
        out.push((format!("zlb-{}.{}.{}.{}", ids[0], ids[1], ids[2], ids[3]), ctl(ids, vec![])));
        out.push((format!("mt-{}.{}.{}.{}", ids[0], ids[1], ids[2], ids[3]), ctl(ids, vec![mt_value(1)])));
    }
    for (_, c) in rf::MESSAGE_TYPE.variants {
        out.push((format!("mt{c}"), ctl([1, 2, 3, 4], vec![mt_value(*c as u64)])));
    }
    for (i, v) in encodable_avps(false).into_iter().enumerate() {
        out.push((format!("mt+k{}{}-{i}", v.kind, if v.hidden { "h" } else { "" }), ctl([7, 8, 9, 10], vec![mt_value(6), v])));
    }
    let mut all = vec![mt_value(2)];
    for k in rf::assigned_kinds() {
        all.push(sample_value(k).unwrap());
        all.push(rf::hidden_view(k, &pat(16, k as usize)));
    }
    out.push(("all-kinds".into(), ctl([1, 2, 3, 4], all)));
    // exactly 65535 octets: 12 + 8 + 64 * 1023 + 43
    let mut big = vec![mt_value(1)];
    for i in 0..64 {
        big.push(var_value(7, 1017 - (i % 2) * 0));
    }
    big.push(var_value(11, 37));
    out.push(("size-65535".into(), ctl([1, 2, 3, 4], big)));
    // the value's own `length` field is an input the encoder must ignore (the emitted Length is the emitted size)
    for l in [1i64, 11, 12, 20, 21, 255, 256, 65535] {
        let mut z = ctl([1, 2, 3, 4], vec![]);
        z.length = l;
        out.push((format!("zlb-length{l}"), z));
        let mut m = ctl([5, 6, 7, 8], vec![mt_value(2), var_value(7, 3)]);
        m.length = l;
        out.push((format!("mt-length{l}"), m));
    }
    out
}
pub fn c03(ctx: &mut Ctx) {
    for (i, v) in encodable_avps(true).iter().enumerate() {
        ctx.case(&format!("avp-k{}{}-{i}", v.kind, if v.hidden { "h" } else { "" }), &|| format!("encode-avps - {}", avp_desc(v)), || {
            let a = rf::build(v).expect("encodable value is representable");
            let wire = enc_avp(&a);
            let (l, rem) = dec_avps(&wire);
            ensure!(l.len() == 1 && l[0].as_ref().ok() == Some(&a) && rem == 0, format!("decode_avps(encode(a)) = [Ok({})]", show(&a)), format!("{} remaining {rem} (encoded {})", show(&l), hex_short(&wire, 40)));
            Ok(())
        });
    }
    for (name, m) in &round_trip_controls() {
        ctx.case(&format!("ctl-{name}"), &|| format!("encode-messages - {}", msg_desc(&MsgV::Control(m.clone()))), || {
            assert!(rf::control_encodable(m), "search bug: message outside the encodable domain");
            let real = rf::build_control(m).expect("representable");
            let wire = enc_msg(&Message::<Vec<u8>>::Control(real.clone()));
            let (res, rem) = dec_msg_o(&wire, STRICT);
            let want = ControlMessage { length: wire.len() as u16, ..real };
            match res {
                Ok(Message::Control(got)) if got == want && rem == 0 && wire.len() <= 65535 => Ok(()),
                other => fail(format!("Ok(m[length := {}]), nothing left", wire.len()), format!("{} remaining {rem}", show(&other))),
            }
        });
    }
}

// =====================================================================================================
// C04  data messages survive encode then decode
pub fn round_trip_datas() -> Vec<(String, DataV)> {
    let mut out = vec![];
    for dlen in [1usize, 2, 3, 17, 300] {
        let offs: Vec<Option<usize>> = if dlen <= 3 {
            std::iter::once(None).chain((0..dlen).map(Some)).collect()
        } else {
            vec![None, Some(0), Some(1), Some(dlen / 2), Some(dlen - 1)]
        };
        for off in offs {
            for prio in [false, true] {
                for ns_nr in [None, Some((0i64, 0i64)), Some((1, 2)), Some((65535, 65534))] {
                    for (ti, ids) in [(0i64, 0i64), (0x1234, 0x5678), (65535, 1), (1, 65535)].into_iter().enumerate() {
                        if dlen > 3 && ti > 1 {
                            continue;
                        }
                        for with_len in [false, true] {
                            let total = 2 + if with_len { 2 } else { 0 } + 4 + if ns_nr.is_some() { 4 } else { 0 } + if off.is_some() { 2 } else { 0 } + dlen;
                            let d = DataV {
                                prio,
                                length: if with_len { Some(total as i64) } else { None },
                                tunnel: ids.0,
                                session: ids.1,
                                ns_nr,
                                offset: off.map(|n| n as i64),
                                data: pat(dlen, dlen),
                            };
                            out.push((
                                format!("d{dlen}-off{}-p{}-s{}-ids{ti}-len{}", off.map(|n| n.to_string()).unwrap_or("none".into()), prio as u8, ns_nr.map(|p| p.0.to_string()).unwrap_or("none".into()), with_len as u8),
                                d,
                            ));
                        }
                    }
                }
            }
        }
    }
    // largest sizes
    for (dlen, off, s) in [(65523usize, None, true), (65521, Some(65520usize), true), (65527, None, false), (60000, Some(100), false)] {
        let total = 2 + 2 + 4 + if s { 4 } else { 0 } + if off.is_some() { 2 } else { 0 } + dlen;
        out.push((
            format!("d{dlen}-big"),
            DataV { prio: true, length: Some(total as i64), tunnel: 9, session: 8, ns_nr: if s { Some((7, 6)) } else { None }, offset: off.map(|n| n as i64), data: {
                let n = off.unwrap_or(0);
                let mut v = vec![0x5au8; n];
                v.extend(vec![0xabu8; dlen - n - 1]);
                v.push(0xcd);
                v
            } },
        ));
    }
    // no Length field: the total size is not bounded by 16 bits (sizes around and beyond 65 536 octets)
    for (dlen, off, s) in [(65529usize, None, false), (65530, None, false), (65531, None, false), (65630, None, false), (65576, None, true),
                           (69992, Some(3usize), false), (65524, Some(65523), true), (131080, None, true), (200000, Some(60000), false)] {
        out.push((
            format!("d{dlen}-nolen-big"),
            DataV { prio: false, length: None, tunnel: 0x0102, session: 0x0304, ns_nr: if s { Some((5, 6)) } else { None }, offset: off.map(|n| n as i64), data: {
                let n = off.unwrap_or(0);
                let mut v = vec![0x5au8; n];
                v.extend((0..dlen - n).map(|i| (i % 251) as u8));
                v
            } },
        ));
    }
    out
}
pub fn c04(ctx: &mut Ctx) {
    for (name, d) in &round_trip_datas() {
        ctx.case(name, &|| format!("encode-messages - {}", msg_desc(&MsgV::Data(d.clone()))), || {
            let real = rf::build_data(d).expect("representable");
            let wire = enc_msg(&Message::Data(real));
            let n = d.offset.unwrap_or(0) as usize;
            let mut want = d.clone();
            want.offset = None;
            want.data = d.data[n..].to_vec();
            // the statement's domain: length absent or equal to the true total size
            if let Some(l) = d.length {
                ensure!(l as usize == wire.len(), format!("(domain) length = |encode(d)| = {l}"), format!("|encode(d)| = {}", wire.len()));
            }
            for e in [None, Some(STRICT), Some(NONE)] {
                let (res, rem) = dec_msg(&wire, &e);
                match &res {
                    Ok(Message::Data(got)) if rf::view_data(got) == want && rem == 0 => {}
                    other => return fail(format!("Ok(d[offset := None, data := data[{n}..]]) = {}", show(&want)), format!("{} remaining {rem} under {} (encoded {})", show(other), entry_text(&e), hex_short(&wire, 40))),
                }
            }
            Ok(())
        });
    }
}

// =====================================================================================================
// C05  the decoder accepts exactly the specified language with the specified values
pub fn c05(ctx: &mut Ctx) {
    let check = |b: &[u8], e: &Entry| -> CaseResult {
        let (res, _) = dec_msg(b, e);
        let spec = spec_entry(b, e);
        match (&res, &spec) {
            (Ok(m), Some((v, _))) => {
                let got = rf::view_message(m);
                ensure!(got == *v, format!("Ok with value {}", show(v)), format!("Ok with value {}", show(&got)));
                Ok(())
            }
            (Err(_), None) => Ok(()),
            (Ok(m), None) => fail("rejected (the specification rejects this input)", format!("Ok({})", show(m))),
            (Err(e), Some((v, _))) => fail(format!("Ok with value {}", show(v)), format!("Err({})", show(e))),
        }
    };
    for (name, b) in &message_corpus() {
        for e in entries_all() {
            ctx.case(&format!("{name}/{}", entry_text(&e)), &|| format!("decode-message {} {}", hexz(b), entry_text(&e)), || check(b, &e));
        }
    }
    for (name, b) in &control_single_avp_corpus() {
        for e in [Some(STRICT), Some(NONE), None] {
            ctx.case(&format!("{name}/{}", entry_text(&e)), &|| format!("decode-message {} {}", hexz(b), entry_text(&e)), || check(b, &e));
        }
    }
    for (name, b) in mutated_corpus().iter().chain(large_offset_datas().iter()) {
        for e in [Some(STRICT), Some(NONE)] {
            ctx.case(&format!("{name}/{}", entry_text(&e)), &|| format!("decode-message {} {}", hexz(b), entry_text(&e)), || check(b, &e));
        }
    }
    // every 16-bit code of the enumerated payload fields, and every attribute number
    for x in 0..=65535u16 {
        let mut err = vec![0, 1];
        err.extend(x.to_be_bytes());
        for (what, r) in [("message-type", rec(0, &x.to_be_bytes())), ("proxy-authen-type", rec(29, &x.to_be_bytes())), ("error-type", rec(1, &err)), ("attribute-type", rec(x, &[0, 1, 0, 2, 0, 3, 0, 4, 0, 5, 0, 6, 0, 7, 0, 8, 0, 9, 0, 10, 0, 11, 0, 12, 0, 13]))] {
            ctx.case(&format!("code-{what}-{x}"), &|| format!("decode-avps {}", hexz(&r)), || {
                let (l, _) = dec_avps(&r);
                let spec = rf::avp_list(&r);
                ensure!(l.len() == spec.len() && l.iter().zip(spec.iter()).all(|(r, s)| rf::rec_val(r, s)), format!("element-wise {}", show(&spec)), show(&l));
                Ok(())
            });
        }
    }
    let mut lists = avp_list_corpus(3);
    let ps = pieces();
    for l in piece_lists(4, ps.len()).into_iter().filter(|l| l.len() == 4 && l[0] <= 1) {
        lists.push(join_pieces(&ps, &l));
    }
    for (name, b) in &lists {
        ctx.case(&format!("avps-{name}"), &|| format!("decode-avps {}", hexz(b)), || {
            let (l, _) = dec_avps(b);
            let spec = rf::avp_list(b);
            ensure!(l.len() == spec.len() && l.iter().zip(spec.iter()).all(|(r, s)| rf::rec_val(r, s)), format!("element-wise {}", show(&spec)), show(&l));
            Ok(())
        });
    }
    for kind in rf::assigned_kinds() {
        for (i, p) in payloads_of(kind, true).iter().enumerate() {
            ctx.case(&format!("type{kind}-p{i}-len{}", p.len()), &|| format!("decode-type {kind} {}", hexz(p)), || {
                if let Some((res, _)) = dec_type_slice(kind, p) {
                    let spec = rf::decode_avp(kind, p);
                    ensure!(rf::rec_val(&res, &spec), show(&spec), show(&res));
                }
                Ok(())
            });
        }
    }
}

// =====================================================================================================
// C06  the encoder emits exactly the specified octets
pub fn encode_datas() -> Vec<(String, DataV)> {
    let mut out = round_trip_datas();
    out.retain(|(n, _)| !n.ends_with("-big") && (n.contains("ids1") || n.starts_with("d1-") || n.starts_with("d2-")));
    // outside the round-trip domain, inside the encoder's: any length value, any offset value, empty payload
    for (i, (len, off, dlen)) in [(Some(0i64), None, 1usize), (Some(5), Some(0i64), 2), (Some(65535), Some(65535), 3), (None, Some(7), 2), (Some(6), None, 0), (None, None, 0)].into_iter().enumerate() {
        for prio in [false, true] {
            out.push((format!("odd{i}-p{}", prio as u8), DataV { prio, length: len, tunnel: 0x0a0b, session: 0x0c0d, ns_nr: if i % 2 == 0 { Some((0x0102, 0x0304)) } else { None }, offset: off, data: pat(dlen, i) }));
        }
    }
    out
}
pub fn encode_controls() -> Vec<(String, CtlV)> {
    let mut out = round_trip_controls();
    let ctl = |avps: Vec<AvpV>| CtlV { length: 0, tunnel: 0x0102, session: 0x0304, ns: 0x0506, nr: 0x0708, avps };
    // the encoder does not care about the order of AVPs or empty variable-length parts
    out.push(("no-mt-first".into(), ctl(vec![var_value(7, 2), mt_value(1)])));
    out.push(("empties".into(), ctl(empty_var_avps())));
    out
}
pub fn c06(ctx: &mut Ctx) {
    let mut avps = encodable_avps(true);
    avps.extend(empty_var_avps());
    avps.push(rf::hidden_view(9, &[]));
    for (i, v) in avps.iter().enumerate() {
        ctx.case(&format!("avp-k{}{}-{i}", v.kind, if v.hidden { "h" } else { "" }), &|| format!("encode-avps - {}", avp_desc(v)), || {
            let a = rf::build(v).expect("representable");
            ensure!(rf::view(&a) == *v, format!("(construction) the value built through the public API views as {}", show(v)), show(&rf::view(&a)));
            let got = enc_avp(&a);
            let want = rf::enc_avp(v);
            ensure!(got == want, hex_short(&want, 60), hex_short(&got, 60));
            Ok(())
        });
    }
    for (name, m) in &encode_controls() {
        ctx.case(&format!("ctl-{name}"), &|| format!("encode-messages - {}", msg_desc(&MsgV::Control(m.clone()))), || {
            let real = rf::build_control(m).expect("representable");
            let got = enc_msg(&Message::<Vec<u8>>::Control(real));
            let want = rf::enc_control(m, 2);
            ensure!(got == want, hex_short(&want, 80), hex_short(&got, 80));
            Ok(())
        });
    }
    for (name, d) in &encode_datas() {
        ctx.case(&format!("data-{name}"), &|| format!("encode-messages - {}", msg_desc(&MsgV::Data(d.clone()))), || {
            let real = rf::build_data(d).expect("representable");
            let got = enc_msg(&Message::Data(real));
            let want = rf::enc_data(d, 2);
            ensure!(got == want, hex_short(&want, 80), hex_short(&got, 80));
            Ok(())
        });
    }
}

// =====================================================================================================
// C07  every emitted length field is exact; oversize values are refused
fn check_avp_extent(a: &AVP, bytes: &[u8]) -> CaseResult {
    ensure!(bytes.len() >= 6, "at least the 6-octet header", format!("{} octets", bytes.len()));
    let lf = rf::hdr_len(bytes);
    ensure!(lf == bytes.len(), format!("10-bit length field = octets emitted = {}", bytes.len()), format!("length field {lf} (refusal expected when the value exceeds 1023 octets)"));
    let gl = a.get_length();
    ensure!(bytes.len() == 6 + gl, format!("|encode(a)| = 6 + get_length() = {}", 6 + gl), format!("|encode(a)| = {}", bytes.len()));
    Ok(())
}
pub fn c07(ctx: &mut Ctx) {
    let mut avps = encodable_avps(false);
    avps.extend(empty_var_avps());
    avps.extend(oversize_avps());
    for (i, v) in avps.iter().enumerate() {
        ctx.case(&format!("avp-k{}{}-len{}-{i}", v.kind, if v.hidden { "h" } else { "" }, 6 + rf::payload_enc(v).len()), &|| format!("encode-avps - {}", avp_desc(v)), || {
            let a = rf::build(v).expect("representable");
            match catch(|| enc_avp(&a)) {
                Err(_) => Ok(()), // refused loudly
                Ok(bytes) => check_avp_extent(&a, &bytes),
            }
        });
    }
    // control messages: Length field, tiling
    let mut ctls: Vec<(String, CtlV)> = round_trip_controls().into_iter().filter(|(n, _)| !n.starts_with("mt+") || n.ends_with('0') || n.ends_with('7')).collect();
    let ctl = |avps: Vec<AvpV>| CtlV { length: 0, tunnel: 1, session: 2, ns: 3, nr: 4, avps };
    for (name, extra) in [("size-65536", 38usize), ("size-65537", 39), ("size-66000", 502), ("size-66558", 1017)] {
        // 12 + 8 + 64 * 1023 + (6 + extra)
        let mut l = vec![mt_value(1)];
        for _ in 0..64 {
            l.push(var_value(7, 1017));
        }
        l.push(var_value(11, extra));
        ctls.push((name.into(), ctl(l)));
    }
    let mut l = vec![mt_value(1)];
    for _ in 0..129 {
        l.push(var_value(7, 1010));
    }
    ctls.push(("size-131084".into(), ctl(l)));
    ctls.push(("oversize-avp-inside".into(), ctl(vec![mt_value(1), var_value(7, 1018), var_value(7, 3)])));
    ctls.push(("wrapping-avp-inside".into(), ctl(vec![mt_value(1), var_value(7, 1024 + 2), var_value(7, 3)])));
    ctls.push(("empties".into(), ctl(empty_var_avps())));
    for (name, m) in &ctls {
        ctx.case(&format!("ctl-{name}"), &|| format!("encode-messages - {}", msg_desc(&MsgV::Control(m.clone()))), || {
            let real = rf::build_control(m).expect("representable");
            let msg = Message::<Vec<u8>>::Control(real.clone());
            let bytes = match catch(|| enc_msg(&msg)) {
                Err(_) => return Ok(()),
                Ok(b) => b,
            };
            ensure!(bytes.len() >= 12, "at least the 12-octet header", format!("{} octets", bytes.len()));
            let lf = rf::be16(&bytes[2..]) as usize;
            ensure!(lf == bytes.len(), format!("Length field = octets emitted = {} (refusal expected above 65535)", bytes.len()), format!("Length field {lf}"));
            let mut pos = 12;
            for (i, a) in real.avps.iter().enumerate() {
                ensure!(pos + 6 <= bytes.len(), format!("AVP {i} starts inside the body"), format!("body ends at {} before AVP {i} at {pos}", bytes.len()));
                let l = rf::hdr_len(&bytes[pos..]);
                let gl = a.get_length();
                ensure!(l == 6 + gl && pos + l <= bytes.len(), format!("AVP {i}: length field = 6 + get_length() = {}", 6 + gl), format!("length field {l} at offset {pos} of {}", bytes.len()));
                pos += l;
            }
            ensure!(pos == bytes.len(), "the AVPs tile the message body exactly", format!("{} octets after the last AVP", bytes.len() - pos));
            Ok(())
        });
    }
    // hide stores the original length; a value that does not fit is refused
    for (kind, n) in [(7i64, 1usize), (7, 1009), (7, 1017), (7, 1018), (7, 1019), (8, 1017), (8, 1018), (11, 5000), (1, 1019 - 4), (12, 1018 - 3)] {
        let v = var_value(kind, n);
        let (secret, rv, lp, ap) = (b"secret".to_vec(), [1u8, 2, 3, 4], vec![0x55u8; 3], [0xa5u8; 16]);
        ctx.case(&format!("hide-k{kind}-len{}", 6 + rf::payload_enc(&v).len()), &|| format!("hide {} {} {} {} {}", avp_desc(&v), hexz(&secret), hexz(&rv), hexz(&lp), hexz(&ap)), || {
            let a = rf::build(&v).expect("representable");
            let r = catch(|| a.clone().hide(&secret, &rl2tp::avp::types::RandomVector { value: rv }, &lp, &ap));
            match r {
                Err(_) => Ok(()),
                Ok(AVP::Hidden(h)) => {
                    let plen = rf::payload_enc(&v).len();
                    ensure!(6 + plen <= 1023, "refusal: the original AVP exceeds 1023 octets", format!("hidden value of {} octets", h.value.len()));
                    ensure!(h.value.len() % 16 == 0 && !h.value.is_empty(), "a whole number of blocks", format!("{} octets", h.value.len()));
                    let p = rf::decrypt(&h.value, &rf::enc16(kind as u64), &secret, &rv);
                    ensure!(rf::be16(&p) as usize == 6 + plen, format!("original-length subfield {}", 6 + plen), format!("{}", rf::be16(&p)));
                    Ok(())
                }
                Ok(other) => fail("a hidden AVP", show(&other)),
            }
        });
    }
}

// =====================================================================================================
// C08  decoding consumes exactly the declared length
/// accepted by the specification, and control or data with a Length field: the extent the message declares
fn declared_extent(b: &[u8], e: &Entry) -> Option<usize> {
    match spec_entry(b, e) {
        Some((MsgV::Control(_), rest)) => Some(b.len() - rest),
        Some((MsgV::Data(d), rest)) if d.length.is_some() => Some(b.len() - rest),
        _ => None,
    }
}
pub fn c08(ctx: &mut Ctx) {
    let suffixes: Vec<Vec<u8>> = vec![vec![0], vec![0xff], vec![0; 6], rec(9, &[0, 1]), control_ok(&rec(0, &[0, 1])), pat(20, 1), vec![0xff; 40]];
    let mut corpus = message_corpus();
    corpus.extend(control_single_avp_corpus().into_iter().step_by(5));
    corpus.extend(large_offset_datas());
    for (name, b) in &corpus {
        for e in [Some(NONE), Some(STRICT)] {
            let Some(extent) = declared_extent(b, &e) else { continue };
            ctx.case(&format!("extent-{name}/{}", entry_text(&e)), &|| format!("decode-message {} {}", hexz(b), entry_text(&e)), || {
                let (r0, rem0) = dec_msg(b, &e);
                ensure!(r0.is_err() || rem0 == b.len() - extent, format!("exactly the declared {extent} octets consumed, {} left", b.len() - extent), format!("{} left after {}", rem0, show(&r0)));
                Ok(())
            });
            for (si, s) in suffixes.iter().enumerate() {
                ctx.case(&format!("suffix{si}-{name}/{}", entry_text(&e)), &|| format!("decode-suffix {} {} {}", hexz(b), hexz(s), entry_text(&e)), || {
                    let (r0, rem0) = dec_msg(b, &e);
                    let mut bs = b.clone();
                    bs.extend(s);
                    let (r1, rem1) = dec_msg(&bs, &e);
                    ensure!(r1 == r0 && rem1 == rem0 + s.len(), format!("the value decoded without the suffix, {} octets left: {}", rem0 + s.len(), show(&r0)), format!("{} remaining {rem1}", show(&r1)));
                    Ok(())
                });
            }
        }
    }
    // messages packed back to back (wire forms cut to their declared extent)
    let mut units: Vec<Vec<u8>> = vec![];
    for (_, b) in corpus.iter() {
        if let Some(n) = declared_extent(b, &Some(STRICT)) {
            let u = b[..n].to_vec();
            if !units.contains(&u) && u.len() < 120 {
                units.push(u);
            }
        }
    }
    let units: Vec<Vec<u8>> = units.into_iter().step_by(9).take(14).collect();
    let seqs = piece_lists(3, units.len()).into_iter().filter(|l| l.len() >= 2);
    for l in seqs {
        let cat: Vec<u8> = l.iter().flat_map(|i| units[*i].clone()).collect();
        ctx.case(&format!("seq-{}", l.iter().map(|i| i.to_string()).collect::<Vec<_>>().join(".")), &|| format!("decode-seq {} rvu", hexz(&cat)), || {
            let mut r = SliceReader::from(&cat);
            for (k, i) in l.iter().enumerate() {
                let got = Message::<&[u8]>::try_read_validate(&mut r, STRICT.real());
                let (want, _) = dec_msg_o(&units[*i], STRICT);
                ensure!(got == want, format!("message {k}: {}", show(&want)), format!("message {k}: {}", show(&got)));
            }
            ensure!(r.is_empty(), "reader at the end", format!("{} octets left", r.len()));
            Ok(())
        });
    }
    // encoded messages one after another
    let mut ms: Vec<MsgV> = vec![];
    for (_, c) in round_trip_controls().into_iter().step_by(41).take(5) {
        ms.push(MsgV::Control(c));
    }
    for (_, d) in round_trip_datas().into_iter().filter(|(_, d)| d.length.is_some()).step_by(61).take(5) {
        ms.push(MsgV::Data(d));
    }
    for l in piece_lists(3, ms.len()).into_iter().filter(|l| l.len() >= 2) {
        let chosen: Vec<MsgV> = l.iter().map(|i| ms[*i].clone()).collect();
        ctx.case(
            &format!("encseq-{}", l.iter().map(|i| i.to_string()).collect::<Vec<_>>().join(".")),
            &|| format!("encode-messages - {}", chosen.iter().map(msg_desc).collect::<Vec<_>>().join(" ")),
            || {
                let reals: Vec<Message<Vec<u8>>> = chosen.iter().map(|m| rf::build_message(m).expect("representable")).collect();
                // C08 is relative: packed back to back, each message decodes to what its own encoding decodes to alone
                // (whether that equals the encoded value is C03 / C04)
                let encs: Vec<Vec<u8>> = reals.iter().map(enc_msg).collect();
                let cat: Vec<u8> = encs.iter().flatten().cloned().collect();
                let alone: Vec<_> = encs.iter().map(|b| dec_msg_o(b, STRICT)).collect();
                if alone.iter().any(|(r, rem)| r.is_err() || *rem != 0) {
                    return Ok(()); // an encoding that does not decode (completely) on its own is not delimited: C03 / C04
                }
                let mut r = SliceReader::from(&cat);
                for k in 0..chosen.len() {
                    let got = Message::<&[u8]>::try_read_validate(&mut r, STRICT.real());
                    ensure!(got == alone[k].0, format!("message {k} as decoded alone: {}", show(&alone[k].0)), format!("message {k}: {}", show(&got)));
                }
                ensure!(r.is_empty(), "reader at the end", format!("{} octets left", r.len()));
                Ok(())
            },
        );
    }
    // well-delimited AVP records: decoding a concatenation = concatenation of decoding each alone
    let ps = pieces();
    let delimited: Vec<usize> = (0..ps.len()).filter(|i| ps[*i].delimited).collect();
    for l in piece_lists(3, delimited.len()).into_iter().filter(|l| l.len() >= 2) {
        let parts: Vec<&Vec<u8>> = l.iter().map(|i| &ps[delimited[*i]].bytes).collect();
        let name: Vec<&str> = l.iter().map(|i| ps[delimited[*i]].name).collect();
        ctx.case(&format!("concat-{}", name.join("+")), &|| format!("decode-avps-concat {}", parts.iter().map(|p| hexz(p)).collect::<Vec<_>>().join(" ")), || check_concat(&parts));
    }
    let sentinel = rec(7, b"zz");
    for kind in wire_kinds() {
        for (i, p) in payloads_of(kind, false).iter().enumerate() {
            for flags in [1u8, 3] {
                let r = rec_raw(flags, 6 + p.len(), 0, kind as u16, p);
                let parts = vec![&sentinel, &r, &sentinel];
                ctx.case(&format!("concat-k{kind}-p{i}-f{flags}"), &|| format!("decode-avps-concat {}", parts.iter().map(|p| hexz(p)).collect::<Vec<_>>().join(" ")), || check_concat(&parts));
            }
        }
    }
}
fn check_concat(parts: &[&Vec<u8>]) -> CaseResult {
    let mut want = vec![];
    let mut cat = vec![];
    for p in parts {
        let (l, rem) = dec_avps(p);
        ensure!(rem == 0, "a record alone is consumed entirely", format!("{rem} octets left after {}", hexz(p)));
        want.extend(l);
        cat.extend(p.iter());
    }
    let (got, rem) = dec_avps(&cat);
    ensure!(got == want && rem == 0, format!("{} nothing left", show(&want)), format!("{} remaining {rem}", show(&got)));
    Ok(())
}

// =====================================================================================================
// C09  encoding only appends
fn overwrites_inside(w: &RecWriter, starts: &[usize]) -> CaseResult {
    // every positional overwrite lies inside the value being encoded at that moment: the value being
    // encoded is the last one whose first octet was already in the buffer
    for (off, n, buflen) in &w.overwrites {
        let cur = starts.iter().filter(|s| **s < *buflen).last().copied().unwrap_or(0);
        ensure!(*off >= cur && off.checked_add(*n).map(|e| e <= *buflen) == Some(true), format!("overwrite inside [{cur}, {buflen})"), format!("write_bytes_at({n} octets, offset {off})"));
    }
    Ok(())
}
pub fn c09(ctx: &mut Ctx) {
    let prefixes: Vec<Vec<u8>> = vec![vec![], vec![0xee], vec![0xee, 0xdd], vec![1, 2, 3], vec![9, 8, 7, 6, 5], pat(300, 4)];
    let mut avps = encodable_avps(false);
    avps.extend(empty_var_avps());
    for (i, v) in avps.iter().enumerate() {
        for p in &prefixes {
            ctx.case(&format!("avp-k{}{}-{i}-prefix{}", v.kind, if v.hidden { "h" } else { "" }, p.len()), &|| format!("encode-avps {} {}", hexz(p), avp_desc(v)), || {
                let a = rf::build(v).expect("representable");
                let alone = match catch(|| enc_avp(&a)) {
                    Ok(x) => x,
                    Err(pan) => {
                        // encoding alone panics: position independence then demands the same after any prefix
                        if p.is_empty() {
                            return Ok(()); // a refusal as such is C06/C07's, not C09's
                        }
                        let after = catch(|| { let mut w = writer_with(p); a.write(&mut w); w.data });
                        return match after {
                            Err(_) => Ok(()),
                            Ok(d) => fail(format!("the same refusal as into an empty writer (PANIC: {pan})"), format!("returns after a {}-octet prefix: {}", p.len(), hex_short(&d, 60))),
                        };
                    }
                };
                let mut w = writer_with(p);
                a.write(&mut w);
                let want: Vec<u8> = [p.clone(), alone.clone()].concat();
                ensure!(w.data == want, format!("prefix ++ encode(v) = {}", hex_short(&want, 60)), hex_short(&w.data, 60));
                let mut rw = RecWriter::with(p);
                a.write(&mut rw);
                ensure!(rw.data == want, format!("(recording writer) {}", hex_short(&want, 60)), hex_short(&rw.data, 60));
                overwrites_inside(&rw, &[p.len()])
            });
        }
    }
    let mut msgs: Vec<(String, MsgV)> = vec![];
    for (n, c) in encode_controls().into_iter().step_by(7) {
        msgs.push((format!("ctl-{n}"), MsgV::Control(c)));
    }
    for (n, d) in encode_datas().into_iter().step_by(5) {
        msgs.push((format!("data-{n}"), MsgV::Data(d)));
    }
    for (name, m) in &msgs {
        for p in &prefixes {
            ctx.case(&format!("{name}-prefix{}", p.len()), &|| format!("encode-messages {} {}", hexz(p), msg_desc(m)), || {
                let real = rf::build_message(m).expect("representable");
                let alone = enc_msg(&real);
                let mut w = writer_with(p);
                real.write(&mut w);
                let want: Vec<u8> = [p.clone(), alone].concat();
                ensure!(w.data == want, format!("prefix ++ encode(v) = {}", hex_short(&want, 60)), hex_short(&w.data, 60));
                let mut rw = RecWriter::with(p);
                real.write(&mut rw);
                ensure!(rw.data == want, format!("(recording writer) {}", hex_short(&want, 60)), hex_short(&rw.data, 60));
                overwrites_inside(&rw, &[p.len()])
            });
        }
    }
    // long prefixes: the value starts near / ends beyond the 16-bit boundary of the writer position, and far beyond it
    let long_prefixes: Vec<Vec<u8>> = vec![vec![0x5a; 65_500], vec![0x5a; 65_535], vec![0x5a; 65_536], vec![0xa5; 70_001], vec![0x11; 1_020], vec![0x11; 1_024]];
    for (name, m) in msgs.iter().filter(|(_, m)| rf::enc_message(m).len() < 200).take(6) {
        for p in &long_prefixes {
            ctx.case(&format!("{name}-longprefix{}", p.len()), &|| format!("encode-messages {} {}", hexz(p), msg_desc(m)), || {
                let real = rf::build_message(m).expect("representable");
                let alone = enc_msg(&real);
                let mut w = writer_with(p);
                real.write(&mut w);
                let want: Vec<u8> = [p.clone(), alone].concat();
                ensure!(w.data == want, format!("prefix({} octets) ++ encode(v), {} octets", p.len(), want.len()), format!("{} octets, tail {}", w.data.len(), hex_short(&w.data[w.data.len().saturating_sub(40)..], 60)));
                Ok(())
            });
        }
    }
    for (i, v) in avps.iter().enumerate().step_by(9).take(12) {
        for p in &long_prefixes {
            ctx.case(&format!("avp-k{}-{i}-longprefix{}", v.kind, p.len()), &|| format!("encode-avps {} {}", hexz(p), avp_desc(v)), || {
                let a = rf::build(v).expect("representable");
                let alone = enc_avp(&a);
                let mut w = writer_with(p);
                a.write(&mut w);
                let want: Vec<u8> = [p.clone(), alone].concat();
                ensure!(w.data == want, format!("prefix({} octets) ++ encode(v), {} octets", p.len(), want.len()), format!("{} octets", w.data.len()));
                Ok(())
            });
        }
    }
    // several values into one writer
    let small: Vec<&(String, MsgV)> = msgs.iter().filter(|(_, m)| rf::enc_message(m).len() < 200).step_by(3).take(8).collect();
    for l in piece_lists(3, small.len()).into_iter().filter(|l| l.len() >= 2) {
        for p in [&prefixes[0], &prefixes[3]] {
            let chosen: Vec<&MsgV> = l.iter().map(|i| &small[*i].1).collect();
            ctx.case(
                &format!("seq-{}-prefix{}", l.iter().map(|i| i.to_string()).collect::<Vec<_>>().join("."), p.len()),
                &|| format!("encode-messages {} {}", hexz(p), chosen.iter().map(|m| msg_desc(m)).collect::<Vec<_>>().join(" ")),
                || {
                    let reals: Vec<Message<Vec<u8>>> = chosen.iter().map(|m| rf::build_message(m).expect("representable")).collect();
                    let mut want = p.clone();
                    let mut rw = RecWriter::with(p);
                    let mut w = writer_with(p);
                    let mut starts = vec![];
                    for m in &reals {
                        want.extend(enc_msg(m));
                        starts.push(rw.data.len());
                        m.write(&mut rw);
                        m.write(&mut w);
                    }
                    ensure!(w.data == want && rw.data == want, format!("prefix ++ encode(v1) ++ .. = {}", hex_short(&want, 80)), format!("{} / recording writer {}", hex_short(&w.data, 80), hex_short(&rw.data, 80)));
                    overwrites_inside(&rw, &starts)
                },
            );
        }
    }
    let some_avps: Vec<&AvpV> = avps.iter().filter(|v| rf::payload_enc(v).len() < 40).step_by(37).take(8).collect();
    for l in piece_lists(3, some_avps.len()).into_iter().filter(|l| l.len() >= 2) {
        let chosen: Vec<&AvpV> = l.iter().map(|i| some_avps[*i]).collect();
        let p = &prefixes[2];
        ctx.case(
            &format!("avpseq-{}", l.iter().map(|i| i.to_string()).collect::<Vec<_>>().join(".")),
            &|| format!("encode-avps {} {}", hexz(p), chosen.iter().map(|v| avp_desc(v)).collect::<Vec<_>>().join(" ")),
            || {
                let reals: Vec<AVP> = chosen.iter().map(|v| rf::build(v).expect("representable")).collect();
                let mut want = p.clone();
                let mut rw = RecWriter::with(p);
                let mut starts = vec![];
                for a in &reals {
                    want.extend(enc_avp(a));
                    starts.push(rw.data.len());
                    a.write(&mut rw);
                }
                ensure!(rw.data == want, hex_short(&want, 80), hex_short(&rw.data, 80));
                overwrites_inside(&rw, &starts)
            },
        );
    }
}

// =====================================================================================================
// C10  re-encoding a decoded message reaches a fixed point in one round
pub fn c10(ctx: &mut Ctx) {
    let mut corpus = message_corpus();
    corpus.extend(control_single_avp_corpus());
    for (name, b) in &corpus {
        let w = if b.len() >= 2 { rf::be16(b) } else { 0 };
        if b.len() >= 2 && !rf::fw_t(w) && rf::fw_o(w) {
            continue; // data message with an offset field: outside the statement
        }
        let es: Vec<Entry> = if name.starts_with("ctl-mt+") { vec![Some(NONE)] } else { entries_all() };
        for e in es {
            ctx.case(&format!("{name}/{}", entry_text(&e)), &|| format!("encode-decode-message {} {}", hexz(b), entry_text(&e)), || {
                let (res, _) = dec_msg(b, &e);
                let m = match res {
                    Err(_) => return Ok(()),
                    Ok(m) => m,
                };
                let e1 = enc_msg(&m);
                let (res2, rem) = dec_msg_o(&e1, STRICT);
                let m2 = match res2 {
                    Ok(m2) => m2,
                    Err(er) => return fail(format!("decode_strict(encode(m)) = Ok(m) for m = {}", show(&m)), format!("Err({}) on {}", show(&er), hex_short(&e1, 60))),
                };
                let same = match (&m, &m2) {
                    (Message::Control(a), Message::Control(b2)) => {
                        a.tunnel_id == b2.tunnel_id && a.session_id == b2.session_id && a.ns == b2.ns && a.nr == b2.nr && a.avps == b2.avps && b2.length as usize == e1.len()
                    }
                    (Message::Data(a), Message::Data(b2)) => a == b2,
                    _ => false,
                };
                ensure!(same && rem == 0, format!("m' = m up to the control Length ({}), nothing left", show(&m)), format!("{} remaining {rem}", show(&m2)));
                let e2 = enc_msg(&m2);
                ensure!(e2 == e1, format!("encode(m') = encode(m) = {}", hex_short(&e1, 60)), hex_short(&e2, 60));
                Ok(())
            });
        }
    }
}

#[allow(dead_code)]
fn _types(_: &DecodeError, _: &dyn Writer) {}
