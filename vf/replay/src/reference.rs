//! Executable reference codec: a transcription of the Verus specification functions in
//! /verif/vf/speclib.rs and of the table / generator in /verif/vf/spec_table.py (DESIGN.md Appendix B)
//! into plain Rust.  Nothing here is taken from /repo's implementation: attribute numbers, code points,
//! field order, widths and rejection conditions are those of the spec files.  Only API vocabulary
//! (Rust type / field / variant names) is shared with the crate, for the views `view*` and `build`.
#![allow(dead_code)]

use core::borrow::Borrow;
use rl2tp::avp::types as t;
use rl2tp::avp::AVP;
use rl2tp::common::{DecodeError, SliceReader};
use rl2tp::{ControlMessage, DataMessage, Message};

// =====================================================================================================
// prelude.rs: big-endian helpers, is_utf8

pub fn be16(s: &[u8]) -> u64 {
    s[0] as u64 * 256 + s[1] as u64
}
pub fn be32(s: &[u8]) -> u64 {
    ((s[0] as u64 * 256 + s[1] as u64) * 256 + s[2] as u64) * 256 + s[3] as u64
}
pub fn be64(s: &[u8]) -> u64 {
    be32(s) * 4294967296 + be32(&s[4..])
}
pub fn enc8(x: u64) -> Vec<u8> {
    vec![(x % 256) as u8]
}
pub fn enc16(x: u64) -> Vec<u8> {
    vec![((x / 256) % 256) as u8, (x % 256) as u8]
}
pub fn enc32(x: u64) -> Vec<u8> {
    vec![((x / 16777216) % 256) as u8, ((x / 65536) % 256) as u8, ((x / 256) % 256) as u8, (x % 256) as u8]
}
pub fn enc64(x: u64) -> Vec<u8> {
    let mut r = enc32(x / 4294967296);
    r.extend(enc32(x % 4294967296));
    r
}
/// `is_utf8` is tied to std's `from_utf8` by the spec prelude.
pub fn is_utf8(b: &[u8]) -> bool {
    std::str::from_utf8(b).is_ok()
}

// =====================================================================================================
// spec_table.py: ENUMS

pub struct EnumTab {
    pub name: &'static str,
    pub variants: &'static [(&'static str, u16)],
}
impl EnumTab {
    /// spec_<name>_of
    pub fn of(&self, x: u64) -> Option<&'static str> {
        self.variants.iter().find(|(_, c)| *c as u64 == x).map(|(v, _)| *v)
    }
    /// spec_<name>_code
    pub fn code(&self, variant: &str) -> Option<u16> {
        self.variants.iter().find(|(v, _)| *v == variant).map(|(_, c)| *c)
    }
    pub fn assigned(&self, x: u64) -> bool {
        self.of(x).is_some()
    }
}

pub static ERROR_TYPE: EnumTab = EnumTab {
    name: "error_type",
    variants: &[
        ("Ok", 0),
        ("NoControlConnectionExists", 1),
        ("WrongLength", 2),
        ("OutOfRangeOrBadReserved", 3),
        ("InsufficientResources", 4),
        ("InvalidSessionId", 5),
        ("Generic", 6),
        ("TryAnotherDestination", 7),
        ("UnknownMandatoryAvp", 8),
    ],
};
pub static PROXY_AUTHEN_TYPE: EnumTab = EnumTab {
    name: "proxy_authen_type",
    variants: &[
        ("Reserved", 0),
        ("TextualUserNamePasswordExchange", 1),
        ("PppChap", 2),
        ("PppPap", 3),
        ("NoAuthentication", 4),
        ("MicrosoftChapVersion1", 5),
    ],
};
pub static STOP_CCN_CODE: EnumTab = EnumTab {
    name: "stop_ccn_code",
    variants: &[
        ("Reserved", 0),
        ("GeneralRequestToClearControlConnection", 1),
        ("GeneralError", 2),
        ("ControlChannelAlreadyExists", 3),
        ("RequesterNotAuthorizedToEstablishControlChannel", 4),
        ("RequesterProtocolVersionUnsupported", 5),
        ("RequesterShutdown", 6),
        ("FsmError", 7),
    ],
};
pub static CDN_CODE: EnumTab = EnumTab {
    name: "cdn_code",
    variants: &[
        ("Reserved", 0),
        ("CallDisconnectedLossOfCarrier", 1),
        ("CallDisconnectedWithErrorCode", 2),
        ("CallDisconnectedAdministrative", 3),
        ("CallFailedTemporarilyUnavailable", 4),
        ("CallFailedPermanentlyUnavailable", 5),
        ("InvalidDestination", 6),
        ("CallFailedNoCarrier", 7),
        ("CallFailedBusySignal", 8),
        ("CallFailedNoDialTone", 9),
        ("CallEstablishTimeout", 10),
        ("CallNoFramingDetected", 11),
    ],
};
pub static MESSAGE_TYPE: EnumTab = EnumTab {
    name: "message_type",
    variants: &[
        ("StartControlConnectionRequest", 1),
        ("StartControlConnectionReply", 2),
        ("StartControlConnectionConnected", 3),
        ("StopControlConnectionNotification", 4),
        ("Hello", 6),
        ("OutgoingCallRequest", 7),
        ("OutgoingCallReply", 8),
        ("OutgoingCallConnected", 9),
        ("IncomingCallRequest", 10),
        ("IncomingCallReply", 11),
        ("IncomingCallConnected", 12),
        ("CallDisconnectNotify", 14),
        ("WanErrorNotify", 15),
        ("SetLinkInfo", 16),
    ],
};

// =====================================================================================================
// spec_table.py: KINDS (layout items) -- kind 1 (ResultCode) is written by hand below, as in speclib.rs

#[derive(Clone, Copy)]
pub enum Item {
    /// big-endian unsigned integer of n octets -> next i-slot
    Int(usize),
    /// u16 restricted to the enum's code points -> next i-slot
    Enum(&'static EnumTab),
    /// n reserved octets: ignored on decode, zero on encode
    Res(usize),
    /// exactly n octets -> next b-slot
    Arr(usize),
    /// one or more octets up to the end of the AVP -> next b-slot
    Rest,
    /// the same, valid UTF-8
    Utf8,
    /// absent iff no octet remains; n = 1 when present
    OptUtf8,
}
use Item::*;

pub struct KindRow {
    pub num: u16,
    pub name: &'static str,
    pub layout: &'static [Item],
}

const U16: Item = Int(2);
const U32: Item = Int(4);

pub static KINDS: &[KindRow] = &[
    KindRow { num: 0, name: "MessageType", layout: &[Enum(&MESSAGE_TYPE)] },
    KindRow { num: 2, name: "ProtocolVersion", layout: &[Int(1), Int(1)] },
    KindRow { num: 3, name: "FramingCapabilities", layout: &[Int(4)] },
    KindRow { num: 4, name: "BearerCapabilities", layout: &[Int(4)] },
    KindRow { num: 5, name: "TieBreaker", layout: &[Int(8)] },
    KindRow { num: 6, name: "FirmwareRevision", layout: &[U16] },
    KindRow { num: 7, name: "HostName", layout: &[Rest] },
    KindRow { num: 8, name: "VendorName", layout: &[Utf8] },
    KindRow { num: 9, name: "AssignedTunnelId", layout: &[U16] },
    KindRow { num: 10, name: "ReceiveWindowSize", layout: &[U16] },
    KindRow { num: 11, name: "Challenge", layout: &[Rest] },
    KindRow { num: 12, name: "Q931CauseCode", layout: &[U16, Int(1), OptUtf8] },
    KindRow { num: 13, name: "ChallengeResponse", layout: &[Arr(16)] },
    KindRow { num: 14, name: "AssignedSessionId", layout: &[U16] },
    KindRow { num: 15, name: "CallSerialNumber", layout: &[U32] },
    KindRow { num: 16, name: "MinimumBps", layout: &[U32] },
    KindRow { num: 17, name: "MaximumBps", layout: &[U32] },
    KindRow { num: 18, name: "BearerType", layout: &[Int(4)] },
    KindRow { num: 19, name: "FramingType", layout: &[Int(4)] },
    KindRow { num: 21, name: "CalledNumber", layout: &[Utf8] },
    KindRow { num: 22, name: "CallingNumber", layout: &[Utf8] },
    KindRow { num: 23, name: "SubAddress", layout: &[Utf8] },
    KindRow { num: 24, name: "TxConnectSpeed", layout: &[U32] },
    KindRow { num: 25, name: "PhysicalChannelId", layout: &[Arr(4)] },
    KindRow { num: 26, name: "InitialReceivedLcpConfReq", layout: &[Rest] },
    KindRow { num: 27, name: "LastSentLcpConfReq", layout: &[Rest] },
    KindRow { num: 28, name: "LastReceivedLcpConfReq", layout: &[Rest] },
    KindRow { num: 29, name: "ProxyAuthenType", layout: &[Enum(&PROXY_AUTHEN_TYPE)] },
    KindRow { num: 30, name: "ProxyAuthenName", layout: &[Rest] },
    KindRow { num: 31, name: "ProxyAuthenChallenge", layout: &[Rest] },
    KindRow { num: 32, name: "ProxyAuthenId", layout: &[Res(1), Int(1)] },
    KindRow { num: 33, name: "ProxyAuthenResponse", layout: &[Rest] },
    KindRow { num: 34, name: "CallErrors", layout: &[Res(2), U32, U32, U32, U32, U32, U32] },
    KindRow { num: 35, name: "Accm", layout: &[Res(2), Arr(4), Arr(4)] },
    KindRow { num: 36, name: "RandomVector", layout: &[Arr(4)] },
    KindRow { num: 37, name: "PrivateGroupId", layout: &[Rest] },
    KindRow { num: 38, name: "RxConnectSpeed", layout: &[U32] },
    KindRow { num: 39, name: "SequencingRequired", layout: &[] },
];

pub fn kind_row(kind: i64) -> Option<&'static KindRow> {
    KINDS.iter().find(|r| r.num as i64 == kind)
}
/// AVP_NAMES of spec_table.py (kind 1 included)
pub fn kind_name(kind: i64) -> Option<&'static str> {
    if kind == 1 {
        Some("ResultCode")
    } else {
        kind_row(kind).map(|r| r.name)
    }
}
/// spec_kind_assigned
pub fn kind_assigned(kind: i64) -> bool {
    kind_name(kind).is_some()
}
/// all assigned attribute numbers, ascending
pub fn assigned_kinds() -> Vec<i64> {
    let mut v: Vec<i64> = KINDS.iter().map(|r| r.num as i64).collect();
    v.push(1);
    v.sort();
    v
}
/// min_len of spec_table.py
pub fn min_len(layout: &[Item]) -> usize {
    let mut m = 0;
    for it in layout {
        m += match it {
            Int(w) => *w,
            Enum(_) => 2,
            Res(n) => *n,
            Arr(n) => *n,
            Rest | Utf8 => 1,
            OptUtf8 => 0,
        };
    }
    m
}
/// minimum payload length of an assigned kind (2 for ResultCode)
pub fn kind_min_len(kind: i64) -> Option<usize> {
    if kind == 1 {
        Some(2)
    } else {
        kind_row(kind).map(|r| min_len(r.layout))
    }
}

// =====================================================================================================
// AvpV: flat value of an AVP

#[derive(Clone, Debug, PartialEq, Eq, Default, Hash)]
pub struct AvpV {
    pub kind: i64,
    pub hidden: bool,
    pub n: i64,
    pub i0: u64,
    pub i1: u64,
    pub i2: u64,
    pub i3: u64,
    pub i4: u64,
    pub i5: u64,
    pub b0: Vec<u8>,
    pub b1: Vec<u8>,
}
impl AvpV {
    pub fn new(kind: i64) -> Self {
        AvpV { kind, ..Default::default() }
    }
    pub fn ints(&self) -> [u64; 6] {
        [self.i0, self.i1, self.i2, self.i3, self.i4, self.i5]
    }
    pub fn set_ints(&mut self, v: &[u64]) {
        let mut a = [0u64; 6];
        for (k, x) in v.iter().enumerate() {
            a[k] = *x;
        }
        self.i0 = a[0];
        self.i1 = a[1];
        self.i2 = a[2];
        self.i3 = a[3];
        self.i4 = a[4];
        self.i5 = a[5];
    }
    pub fn bs(&self) -> [&Vec<u8>; 2] {
        [&self.b0, &self.b1]
    }
}

fn be_n(s: &[u8], w: usize) -> u64 {
    match w {
        1 => s[0] as u64,
        2 => be16(s),
        4 => be32(s),
        8 => be64(s),
        _ => unreachable!(),
    }
}
fn enc_n(x: u64, w: usize) -> Vec<u8> {
    match w {
        1 => enc8(x),
        2 => enc16(x),
        4 => enc32(x),
        8 => enc64(x),
        _ => unreachable!(),
    }
}
fn max_n(w: usize) -> Option<u64> {
    match w {
        1 => Some(256),
        2 => Some(65536),
        4 => Some(4294967296),
        _ => None, // 2^64: every u64 is in range
    }
}

// ---- generated pdec_K / penc_K / pok_K (kind_spec of spec_table.py) -----------------------------------
fn pdec_row(row: &KindRow, p: &[u8]) -> Option<AvpV> {
    if p.len() < min_len(row.layout) {
        return None;
    }
    let mut ints: Vec<u64> = vec![];
    let mut bs: Vec<Vec<u8>> = vec![];
    let mut n = 0i64;
    let mut cur = p;
    let mut reject = false;
    for it in row.layout {
        match it {
            Int(w) => {
                ints.push(be_n(cur, *w));
                cur = &cur[*w..];
            }
            Enum(tab) => {
                let e = be16(cur);
                if !tab.assigned(e) {
                    reject = true;
                }
                ints.push(e);
                cur = &cur[2..];
            }
            Res(k) => cur = &cur[*k..],
            Arr(k) => {
                bs.push(cur[..*k].to_vec());
                cur = &cur[*k..];
            }
            Rest => bs.push(cur.to_vec()),
            Utf8 => {
                if !is_utf8(cur) {
                    reject = true;
                }
                bs.push(cur.to_vec());
            }
            OptUtf8 => {
                if !cur.is_empty() && !is_utf8(cur) {
                    reject = true;
                }
                bs.push(cur.to_vec());
                n = if !cur.is_empty() { 1 } else { 0 };
            }
        }
    }
    if reject {
        return None;
    }
    let mut v = AvpV::new(row.num as i64);
    v.n = n;
    v.set_ints(&ints);
    let mut bi = bs.into_iter();
    v.b0 = bi.next().unwrap_or_default();
    v.b1 = bi.next().unwrap_or_default();
    Some(v)
}
fn penc_row(row: &KindRow, v: &AvpV) -> Vec<u8> {
    let ints = v.ints();
    let bs = v.bs();
    let (mut ii, mut bi) = (0, 0);
    let mut out = vec![];
    for it in row.layout {
        match it {
            Int(w) => {
                out.extend(enc_n(ints[ii], *w));
                ii += 1;
            }
            Enum(_) => {
                out.extend(enc16(ints[ii]));
                ii += 1;
            }
            Res(k) => out.extend(std::iter::repeat(0u8).take(*k)),
            Arr(_) | Rest | Utf8 | OptUtf8 => {
                out.extend(bs[bi].iter());
                bi += 1;
            }
        }
    }
    out
}
fn pok_row(row: &KindRow, v: &AvpV) -> bool {
    if v.kind != row.num as i64 || v.hidden {
        return false;
    }
    let ints = v.ints();
    let bs = v.bs();
    let (mut ii, mut bi) = (0, 0);
    let mut nok = v.n == 0;
    for it in row.layout {
        match it {
            Int(w) => {
                if let Some(m) = max_n(*w) {
                    if ints[ii] >= m {
                        return false;
                    }
                }
                ii += 1;
            }
            Enum(tab) => {
                if !(ints[ii] < 65536 && tab.assigned(ints[ii])) {
                    return false;
                }
                ii += 1;
            }
            Res(_) => {}
            Arr(k) => {
                if bs[bi].len() != *k {
                    return false;
                }
                bi += 1;
            }
            Rest => {
                if bs[bi].is_empty() {
                    return false;
                }
                bi += 1;
            }
            Utf8 => {
                if bs[bi].is_empty() || !is_utf8(bs[bi]) {
                    return false;
                }
                bi += 1;
            }
            OptUtf8 => {
                let b = bs[bi];
                nok = (v.n == 0 || v.n == 1) && (v.n != 0 || b.is_empty()) && (v.n != 1 || (!b.is_empty() && is_utf8(b)));
                bi += 1;
            }
        }
    }
    if !nok {
        return false;
    }
    for k in ii..6 {
        if ints[k] != 0 {
            return false;
        }
    }
    for k in bi..2 {
        if !bs[k].is_empty() {
            return false;
        }
    }
    true
}

// ---- kind 1, Result Code (speclib.rs, by hand) -----------------------------------------------------------
fn pdec_1(p: &[u8]) -> Option<AvpV> {
    if p.len() < 2 {
        None
    } else if p.len() < 4 {
        let mut v = AvpV::new(1);
        v.i0 = be16(p);
        Some(v)
    } else if !ERROR_TYPE.assigned(be16(&p[2..])) {
        None
    } else if p.len() == 4 {
        let mut v = AvpV::new(1);
        v.n = 1;
        v.i0 = be16(p);
        v.i1 = be16(&p[2..]);
        Some(v)
    } else if !is_utf8(&p[4..]) {
        None
    } else {
        let mut v = AvpV::new(1);
        v.n = 2;
        v.i0 = be16(p);
        v.i1 = be16(&p[2..]);
        v.b0 = p[4..].to_vec();
        Some(v)
    }
}
fn penc_1(v: &AvpV) -> Vec<u8> {
    let mut r = enc16(v.i0);
    if v.n == 0 {
    } else if v.n == 1 {
        r.extend(enc16(v.i1));
    } else {
        r.extend(enc16(v.i1));
        r.extend(v.b0.iter());
    }
    r
}
fn pok_1(v: &AvpV) -> bool {
    v.kind == 1
        && !v.hidden
        && v.i0 < 65536
        && (v.n == 0 || v.n == 1 || v.n == 2)
        && (v.n != 0 || v.i1 == 0)
        && (v.n < 1 || (v.i1 < 65536 && ERROR_TYPE.assigned(v.i1)))
        && (v.n > 1 || v.b0.is_empty())
        && (v.n != 2 || (!v.b0.is_empty() && is_utf8(&v.b0)))
        && v.i2 == 0
        && v.i3 == 0
        && v.i4 == 0
        && v.i5 == 0
        && v.b1.is_empty()
}
fn perr_1(p: &[u8]) -> Option<ExpectedErr> {
    if p.len() < 2 {
        Some(ExpectedErr::IncompleteAVP(1))
    } else if p.len() < 4 {
        None
    } else if !ERROR_TYPE.assigned(be16(&p[2..])) {
        Some(ExpectedErr::InvalidResultCodeErrorType(be16(&p[2..]) as u16))
    } else if p.len() > 4 && !is_utf8(&p[4..]) {
        Some(ExpectedErr::InvalidUtf8(1))
    } else {
        None
    }
}
fn pok_hidden(v: &AvpV) -> bool {
    v.hidden && 0 <= v.kind && v.kind < 65536 && v.n == 0 && v.ints() == [0; 6] && v.b1.is_empty()
}
pub fn hidden_view(attribute_type: i64, value: &[u8]) -> AvpV {
    let mut v = AvpV::new(attribute_type);
    v.hidden = true;
    v.b0 = value.to_vec();
    v
}

// ---- dispatch (generated_spec of spec_table.py) ----------------------------------------------------------
/// spec_payload_dec
pub fn payload_dec(kind: i64, p: &[u8]) -> Option<AvpV> {
    if kind == 1 {
        pdec_1(p)
    } else {
        pdec_row(kind_row(kind)?, p)
    }
}
/// spec_payload_enc
pub fn payload_enc(v: &AvpV) -> Vec<u8> {
    if v.hidden {
        v.b0.clone()
    } else if v.kind == 1 {
        penc_1(v)
    } else if let Some(row) = kind_row(v.kind) {
        penc_row(row, v)
    } else {
        vec![]
    }
}
/// spec_payload_ok: the encodable domain of a single AVP value (size limit excluded, see `avp_fits`)
pub fn payload_ok(v: &AvpV) -> bool {
    if v.hidden {
        pok_hidden(v)
    } else if v.kind == 1 {
        pok_1(v)
    } else if let Some(row) = kind_row(v.kind) {
        pok_row(row, v)
    } else {
        false
    }
}

/// Identity of an error, where the specification names it.
#[derive(Clone, Debug, PartialEq, Eq)]
pub enum ExpectedErr {
    IncompleteAVP(u16),
    UnknownMessageType(u16),
    InvalidUtf8(u16),
    InvalidResultCodeErrorType(u16),
    UnknownAvp(u16),
    UnsupportedVendorId(u16),
    InvalidVersion(u8),
    InvalidOffset(u16),
}
impl ExpectedErr {
    pub fn to_real(&self) -> DecodeError {
        match *self {
            ExpectedErr::IncompleteAVP(x) => DecodeError::IncompleteAVP(x),
            ExpectedErr::UnknownMessageType(x) => DecodeError::UnknownMessageType(x),
            ExpectedErr::InvalidUtf8(x) => DecodeError::InvalidUtf8(x),
            ExpectedErr::InvalidResultCodeErrorType(x) => DecodeError::InvalidResultCodeErrorType(x),
            ExpectedErr::UnknownAvp(x) => DecodeError::UnknownAvp(x),
            ExpectedErr::UnsupportedVendorId(x) => DecodeError::UnsupportedVendorId(x),
            ExpectedErr::InvalidVersion(x) => DecodeError::InvalidVersion(x),
            ExpectedErr::InvalidOffset(x) => DecodeError::InvalidOffset(x),
        }
    }
    pub fn matches(&self, e: &DecodeError) -> bool {
        self.to_real() == *e
    }
    /// same variant, value not compared
    pub fn same_variant(&self, e: &DecodeError) -> bool {
        std::mem::discriminant(&self.to_real()) == std::mem::discriminant(e)
    }
}

/// spec_payload_err: truncated -> IncompleteAVP(kind); non-UTF-8 -> InvalidUtf8(kind); unknown message-type
/// code -> UnknownMessageType(code); unknown error-type code -> InvalidResultCodeErrorType(code)
pub fn payload_err(kind: i64, p: &[u8]) -> Option<ExpectedErr> {
    if kind == 1 {
        return perr_1(p);
    }
    let row = kind_row(kind)?;
    if row.layout.is_empty() {
        return None;
    }
    if p.len() < min_len(row.layout) {
        return Some(ExpectedErr::IncompleteAVP(row.num));
    }
    let mut cur = p;
    for it in row.layout {
        match it {
            Enum(tab) => {
                if tab.name == "message_type" && !tab.assigned(be16(cur)) {
                    return Some(ExpectedErr::UnknownMessageType(be16(cur) as u16));
                }
                cur = &cur[2..];
            }
            Utf8 => {
                if !is_utf8(cur) {
                    return Some(ExpectedErr::InvalidUtf8(row.num));
                }
            }
            OptUtf8 => {
                if !cur.is_empty() && !is_utf8(cur) {
                    return Some(ExpectedErr::InvalidUtf8(row.num));
                }
            }
            Int(w) => cur = &cur[*w..],
            Res(k) => cur = &cur[*k..],
            Arr(k) => cur = &cur[*k..],
            Rest => {}
        }
    }
    None
}

// =====================================================================================================
// AVP framing (speclib.rs)

pub fn hdr_len(s: &[u8]) -> usize {
    (s[0] as usize / 64) * 256 + s[1] as usize
}
pub fn hdr_hidden(s: &[u8]) -> bool {
    (s[0] as usize / 2) % 2 == 1
}

#[derive(Clone, Debug, PartialEq, Eq)]
pub enum RecV {
    Ok(AvpV),
    Err(Option<ExpectedErr>),
}
impl RecV {
    pub fn is_ok(&self) -> bool {
        matches!(self, RecV::Ok(_))
    }
}

/// spec_decode_avp
pub fn decode_avp(kind: i64, p: &[u8]) -> RecV {
    if !kind_assigned(kind) {
        RecV::Err(Some(ExpectedErr::UnknownAvp(kind as u16)))
    } else {
        match payload_dec(kind, p) {
            Some(v) => RecV::Ok(v),
            None => RecV::Err(payload_err(kind, p)),
        }
    }
}

/// spec_avp_list
pub fn avp_list(s0: &[u8]) -> Vec<RecV> {
    let mut out = vec![];
    let mut s = s0;
    loop {
        if s.len() < 6 {
            return out;
        }
        let len = hdr_len(s);
        if len < 6 || len > s.len() {
            out.push(RecV::Err(None));
            return out;
        }
        let payload = &s[6..len];
        let vendor = be16(&s[2..]);
        let kind = be16(&s[4..]) as i64;
        let this = if vendor != 0 {
            RecV::Err(Some(ExpectedErr::UnsupportedVendorId(vendor as u16)))
        } else if hdr_hidden(s) {
            RecV::Ok(hidden_view(kind, payload))
        } else {
            decode_avp(kind, payload)
        };
        out.push(this);
        s = &s[len..];
    }
}

/// spec_enc_avp (meaningful when `avp_fits`)
pub fn enc_avp(v: &AvpV) -> Vec<u8> {
    let mut body = enc16(v.kind as u64);
    body.extend(payload_enc(v));
    let len = 4 + body.len();
    let mut r = vec![(((len / 256) % 4) * 64 + 1 + if v.hidden { 2 } else { 0 }) as u8, (len % 256) as u8];
    r.extend(enc16(0));
    r.extend(body);
    r
}
pub fn avp_fits(v: &AvpV) -> bool {
    6 + payload_enc(v).len() <= 1023
}
/// payload_ok and avp_fits: the encodable domain of C03 / C06 / C11
pub fn avp_encodable(v: &AvpV) -> bool {
    payload_ok(v) && avp_fits(v)
}
pub fn enc_avps(l: &[AvpV]) -> Vec<u8> {
    let mut r = vec![];
    for v in l {
        r.extend(enc_avp(v));
    }
    r
}

// =====================================================================================================
// header flag word
pub fn fw_t(w: u64) -> bool {
    (w / 256) % 2 == 1
}
pub fn fw_l(w: u64) -> bool {
    (w / 512) % 2 == 1
}
pub fn fw_s(w: u64) -> bool {
    (w / 4096) % 2 == 1
}
pub fn fw_o(w: u64) -> bool {
    (w / 16384) % 2 == 1
}
pub fn fw_p(w: u64) -> bool {
    (w / 32768) % 2 == 1
}
pub fn fw_version(w: u64) -> u64 {
    (w / 16) % 16
}
pub fn fw_reserved_ok(w: u64) -> bool {
    w % 16 == 0 && (w / 1024) % 4 == 0 && (w / 8192) % 2 == 0
}
pub fn flag_word(control: bool, l: bool, s: bool, o: bool, p: bool, version: u64) -> u64 {
    (if control { 256 } else { 0 })
        + (if l { 512 } else { 0 })
        + (if s { 4096 } else { 0 })
        + (if o { 16384 } else { 0 })
        + (if p { 32768 } else { 0 })
        + version * 16
}

// =====================================================================================================
// control message
#[derive(Clone, Debug, PartialEq, Eq)]
pub struct CtlV {
    pub length: i64,
    pub tunnel: i64,
    pub session: i64,
    pub ns: i64,
    pub nr: i64,
    pub avps: Vec<AvpV>,
}
pub fn recs_all_ok(l: &[RecV]) -> bool {
    l.iter().all(|r| r.is_ok())
}
pub fn recs_values(l: &[RecV]) -> Vec<AvpV> {
    l.iter()
        .map(|r| match r {
            RecV::Ok(v) => v.clone(),
            RecV::Err(_) => panic!("recs_values on Err"),
        })
        .collect()
}
pub fn rec_is_message_type(r: &RecV) -> bool {
    matches!(r, RecV::Ok(v) if !v.hidden && v.kind == 0)
}
/// spec_tail_ok
pub fn tail_ok(l: &[RecV]) -> bool {
    recs_all_ok(l) && (l.is_empty() || rec_is_message_type(&l[0]))
}
/// recs_errors: one per bad record, in order
pub fn recs_errors(l: &[RecV]) -> Vec<Option<ExpectedErr>> {
    l.iter()
        .filter_map(|r| match r {
            RecV::Err(e) => Some(e.clone()),
            RecV::Ok(_) => None,
        })
        .collect()
}
/// spec_control_list: b = octets after the flag word
pub fn control_list(w: u64, check_unused: bool, b: &[u8]) -> Option<Vec<RecV>> {
    if check_unused && (fw_p(w) || fw_o(w)) {
        None
    } else if !fw_l(w) || !fw_s(w) {
        None
    } else if b.len() < 10 {
        None
    } else {
        let length = be16(b) as usize;
        let body = &b[10..];
        if length < 12 || length - 12 > body.len() {
            None
        } else {
            Some(avp_list(&body[..length - 12]))
        }
    }
}
/// spec_control: (value, number of octets left after the message)
pub fn control(w: u64, check_unused: bool, b: &[u8]) -> Option<(CtlV, usize)> {
    let l = control_list(w, check_unused, b)?;
    if !tail_ok(&l) {
        return None;
    }
    let length = be16(b) as usize;
    Some((
        CtlV {
            length: length as i64,
            tunnel: be16(&b[2..]) as i64,
            session: be16(&b[4..]) as i64,
            ns: be16(&b[6..]) as i64,
            nr: be16(&b[8..]) as i64,
            avps: recs_values(&l),
        },
        b.len() - 10 - (length - 12),
    ))
}
pub fn enc_control(m: &CtlV, version: u64) -> Vec<u8> {
    let body = enc_avps(&m.avps);
    let mut r = enc16(flag_word(true, true, true, false, false, version));
    r.extend(enc16(12 + body.len() as u64));
    r.extend(enc16(m.tunnel as u64));
    r.extend(enc16(m.session as u64));
    r.extend(enc16(m.ns as u64));
    r.extend(enc16(m.nr as u64));
    r.extend(body);
    r
}
pub fn control_fits(m: &CtlV) -> bool {
    m.avps.iter().all(avp_fits) && 12 + enc_avps(&m.avps).len() <= 65535
}
/// the encodable domain of C03: every AVP encodable, whole message fits, first AVP (if any) a Message Type
pub fn control_encodable(m: &CtlV) -> bool {
    m.avps.iter().all(avp_encodable)
        && control_fits(m)
        && (m.avps.is_empty() || (!m.avps[0].hidden && m.avps[0].kind == 0))
        && [m.tunnel, m.session, m.ns, m.nr].iter().all(|x| (0..65536).contains(x))
}

// =====================================================================================================
// data message
#[derive(Clone, Debug, PartialEq, Eq)]
pub struct DataV {
    pub prio: bool,
    pub length: Option<i64>,
    pub tunnel: i64,
    pub session: i64,
    pub ns_nr: Option<(i64, i64)>,
    pub offset: Option<i64>,
    pub data: Vec<u8>,
}
/// spec_data: b0 = octets after the flag word; (value, number of octets left)
pub fn data(w: u64, b0: &[u8]) -> Option<(DataV, usize)> {
    let need: usize = 4 + (if fw_l(w) { 2 } else { 0 }) + (if fw_s(w) { 4 } else { 0 }) + (if fw_o(w) { 2 } else { 0 });
    if b0.len() < need {
        return None;
    }
    let length = if fw_l(w) { Some(be16(b0) as i64) } else { None };
    let b1 = if fw_l(w) { &b0[2..] } else { b0 };
    let tunnel = be16(b1) as i64;
    let session = be16(&b1[2..]) as i64;
    let b2 = &b1[4..];
    let ns_nr = if fw_s(w) { Some((be16(b2) as i64, be16(&b2[2..]) as i64)) } else { None };
    let b3 = if fw_s(w) { &b2[4..] } else { b2 };
    let pad: usize = if fw_o(w) { be16(b3) as usize } else { 0 };
    let b4 = if fw_o(w) { &b3[2..] } else { b3 };
    if b4.len() < pad {
        return None;
    }
    let b5 = &b4[pad..];
    // Length counts every octet from the first flag octet: 2 + need + pad + |payload|
    let n: i64 = match length {
        Some(l) => l - (2 + need + pad) as i64,
        None => b5.len() as i64,
    };
    if n <= 0 || n > b5.len() as i64 {
        return None;
    }
    let n = n as usize;
    Some((
        DataV { prio: fw_p(w), length, tunnel, session, ns_nr, offset: None, data: b5[..n].to_vec() },
        b5.len() - n,
    ))
}
/// spec_data_offset_fault
pub fn data_offset_fault(w: u64, b0: &[u8]) -> Option<u64> {
    let need: usize = 4 + (if fw_l(w) { 2 } else { 0 }) + (if fw_s(w) { 4 } else { 0 }) + (if fw_o(w) { 2 } else { 0 });
    if b0.len() < need || !fw_o(w) {
        return None;
    }
    let b1 = if fw_l(w) { &b0[2..] } else { b0 };
    let b2 = &b1[4..];
    let b3 = if fw_s(w) { &b2[4..] } else { b2 };
    if ((b3.len() - 2) as u64) < be16(b3) {
        Some(be16(b3))
    } else {
        None
    }
}
pub fn enc_data(d: &DataV, version: u64) -> Vec<u8> {
    let mut r = enc16(flag_word(false, d.length.is_some(), d.ns_nr.is_some(), d.offset.is_some(), d.prio, version));
    if let Some(l) = d.length {
        r.extend(enc16(l as u64));
    }
    r.extend(enc16(d.tunnel as u64));
    r.extend(enc16(d.session as u64));
    if let Some(p) = d.ns_nr {
        r.extend(enc16(p.0 as u64));
        r.extend(enc16(p.1 as u64));
    }
    if let Some(o) = d.offset {
        r.extend(enc16(o as u64));
    }
    r.extend(d.data.iter());
    r
}

// =====================================================================================================
// message
#[derive(Clone, Debug, PartialEq, Eq)]
pub enum MsgV {
    Control(CtlV),
    Data(DataV),
}
/// spec_message: (value, number of octets left)
pub fn message(b: &[u8], check_reserved: bool, check_version: bool, check_unused: bool) -> Option<(MsgV, usize)> {
    if b.len() < 2 {
        return None;
    }
    let w = be16(b);
    if check_version && fw_version(w) != 2 {
        None
    } else if check_reserved && !fw_reserved_ok(w) {
        None
    } else if fw_t(w) {
        control(w, check_unused, &b[2..]).map(|r| (MsgV::Control(r.0), r.1))
    } else {
        data(w, &b[2..]).map(|r| (MsgV::Data(r.0), r.1))
    }
}
pub fn message_reaches_body(b: &[u8], check_reserved: bool, check_version: bool) -> bool {
    b.len() >= 2 && !(check_version && fw_version(be16(b)) != 2) && !(check_reserved && !fw_reserved_ok(be16(b)))
}
/// msg_eq: equality "up to nothing" (ctl_eq compares the length as well)
pub fn msg_eq(a: &MsgV, b: &MsgV) -> bool {
    a == b
}
pub fn enc_message(m: &MsgV) -> Vec<u8> {
    match m {
        MsgV::Control(c) => enc_control(c, 2),
        MsgV::Data(d) => enc_data(d, 2),
    }
}
/// the errors the specification names for a rejected message (C20 clauses of Message::try_read_validate):
/// `Some(list)` = the error list must have this length and, where an entry is `Some`, this identity.
pub fn message_named_errors(b: &[u8], check_reserved: bool, check_version: bool, check_unused: bool) -> Option<Vec<Option<ExpectedErr>>> {
    if b.len() < 2 {
        return None;
    }
    let w = be16(b);
    // message.err.version
    if check_version && fw_version(w) != 2 && message(b, check_reserved, false, check_unused).is_some() {
        return Some(vec![Some(ExpectedErr::InvalidVersion(fw_version(w) as u8))]);
    }
    if !message_reaches_body(b, check_reserved, check_version) {
        return None;
    }
    if !fw_t(w) {
        // message.err.offset
        return data_offset_fault(w, &b[2..]).map(|n| vec![Some(ExpectedErr::InvalidOffset(n as u16))]);
    }
    // message.err.control_list / control_id
    let l = control_list(w, check_unused, &b[2..])?;
    // (an undecodable first record is reported like any other: its own error is not masked by ControlMessageTypeNotFirst)
    if !l.is_empty() && (rec_is_message_type(&l[0]) || matches!(l[0], RecV::Err(_))) && !recs_all_ok(&l) {
        Some(recs_errors(&l))
    } else {
        None
    }
}

// =====================================================================================================
// hidden AVP values (RFC 2661 §4.3) with real MD5
pub fn md5s(x: &[u8]) -> [u8; 16] {
    md5::compute(x).0
}
fn xor_block(a: &[u8], k: &[u8; 16]) -> Vec<u8> {
    (0..16).map(|j| a[j] ^ k[j]).collect()
}
/// encrypt: c_0 = p_0 xor MD5(type ++ secret ++ rv); c_i = p_i xor MD5(secret ++ c_{i-1})
pub fn encrypt(p: &[u8], t: &[u8], secret: &[u8], rv: &[u8]) -> Vec<u8> {
    assert!(p.len() % 16 == 0);
    let mut out: Vec<u8> = vec![];
    for i in 0..p.len() / 16 {
        let key = if i == 0 {
            let mut k = t.to_vec();
            k.extend(secret);
            k.extend(rv);
            md5s(&k)
        } else {
            let mut k = secret.to_vec();
            k.extend(&out[16 * (i - 1)..16 * i]);
            md5s(&k)
        };
        let blk = xor_block(&p[16 * i..16 * i + 16], &key);
        out.extend(blk);
    }
    out
}
/// spec_hide_plain: original-length subfield (6 + |value|), value, length padding, just enough alignment padding
pub fn hide_plain(payload: &[u8], lp: &[u8], ap: &[u8]) -> Vec<u8> {
    let mut body = enc16(6 + payload.len() as u64);
    body.extend(payload);
    body.extend(lp);
    let pad = (16 - body.len() % 16) % 16;
    body.extend(&ap[..pad]);
    body
}
pub fn hide_value(kind: i64, payload: &[u8], secret: &[u8], rv: &[u8], lp: &[u8], ap: &[u8]) -> Vec<u8> {
    encrypt(&hide_plain(payload, lp, ap), &enc16(kind as u64), secret, rv)
}
/// decrypt: keys use ciphertext blocks
pub fn decrypt(c: &[u8], t: &[u8], secret: &[u8], rv: &[u8]) -> Vec<u8> {
    let mut out = vec![];
    for i in 0..(c.len() + 15) / 16 {
        let key = if i == 0 {
            let mut k = t.to_vec();
            k.extend(secret);
            k.extend(rv);
            md5s(&k)
        } else {
            let mut k = secret.to_vec();
            k.extend(&c[16 * (i - 1)..16 * i]);
            md5s(&k)
        };
        for k in 16 * i..(16 * i + 16).min(c.len()) {
            out.push(c[k] ^ key[k % 16]);
        }
    }
    out
}
/// spec_reveal
pub fn reveal(kind: i64, c: &[u8], secret: &[u8], rv: &[u8]) -> RecV {
    if c.is_empty() || c.len() % 16 != 0 {
        return RecV::Err(None);
    }
    let p = decrypt(c, &enc16(kind as u64), secret, rv);
    let total = be16(&p) as i64;
    if total < 6 || total > 1023 || total - 6 > p.len() as i64 - 2 {
        RecV::Err(None)
    } else {
        decode_avp(kind, &p[2..2 + (total - 6) as usize])
    }
}

// =====================================================================================================
// views of the crate's values (av() / cv() / dv() / mv() of the contracts)

/// value of the private `data: u32` / `value: u16` field of a type whose derived Debug shows it
fn debug_field_u64<T: std::fmt::Debug>(x: &T, field: &str) -> u64 {
    let s = format!("{x:?}");
    let key = format!("{field}: ");
    let at = s.find(&key).unwrap_or_else(|| panic!("VF-VIEW: no field {field} in {s}")) + key.len();
    // the derived Debug prints a plain decimal number followed by `,`, ` }` or `)`; anything else (a hand-written Debug
    // printing hex, a wrapper type, ...) is not readable by this oracle: VF-VIEW, never a witness
    let tail = &s[at..];
    let digits: String = tail.chars().take_while(|c| c.is_ascii_digit()).collect();
    let next = tail[digits.len()..].chars().next();
    if digits.is_empty() || !matches!(next, None | Some(',') | Some(' ') | Some('}') | Some(')')) {
        panic!("VF-VIEW: field {field} is not a plain decimal number in {s}");
    }
    digits.parse().unwrap_or_else(|_| panic!("VF-VIEW: bad number in {s}"))
}
fn variant_name<T: std::fmt::Debug>(x: &T) -> String {
    format!("{x:?}")
}
pub fn code_value_raw(c: &t::result_code::CodeValue) -> u64 {
    debug_field_u64(c, "value")
}

fn one_int(kind: i64, x: u64) -> AvpV {
    let mut v = AvpV::new(kind);
    v.i0 = x;
    v
}
fn one_bytes(kind: i64, b: &[u8]) -> AvpV {
    let mut v = AvpV::new(kind);
    v.b0 = b.to_vec();
    v
}

/// av(): kind numbers and slot order are those of the KINDS table
pub fn view(a: &AVP) -> AvpV {
    match a {
        AVP::MessageType(x) => one_int(0, MESSAGE_TYPE.code(&variant_name(x)).expect("VF-VIEW: message type variant") as u64),
        AVP::ResultCode(x) => {
            let mut v = AvpV::new(1);
            v.i0 = code_value_raw(&x.code);
            match &x.error {
                None => {}
                Some(e) => {
                    v.i1 = ERROR_TYPE.code(&variant_name(&e.error_type)).expect("VF-VIEW: error type variant") as u64;
                    match &e.error_message {
                        None => v.n = 1,
                        Some(m) => {
                            v.n = 2;
                            v.b0 = m.as_bytes().to_vec();
                        }
                    }
                }
            }
            v
        }
        AVP::ProtocolVersion(x) => {
            let mut v = AvpV::new(2);
            v.i0 = x.version as u64;
            v.i1 = x.revision as u64;
            v
        }
        AVP::FramingCapabilities(x) => one_int(3, debug_field_u64(x, "data")),
        AVP::BearerCapabilities(x) => one_int(4, debug_field_u64(x, "data")),
        AVP::TieBreaker(x) => one_int(5, x.value),
        AVP::FirmwareRevision(x) => one_int(6, x.value as u64),
        AVP::HostName(x) => one_bytes(7, &x.value),
        AVP::VendorName(x) => one_bytes(8, x.value.as_bytes()),
        AVP::AssignedTunnelId(x) => one_int(9, x.value as u64),
        AVP::ReceiveWindowSize(x) => one_int(10, x.value as u64),
        AVP::Challenge(x) => one_bytes(11, &x.value),
        AVP::Q931CauseCode(x) => {
            let mut v = AvpV::new(12);
            v.i0 = x.cause_code as u64;
            v.i1 = x.cause_msg as u64;
            if let Some(s) = &x.advisory {
                v.n = 1;
                v.b0 = s.as_bytes().to_vec();
            }
            v
        }
        AVP::ChallengeResponse(x) => one_bytes(13, &x.value),
        AVP::AssignedSessionId(x) => one_int(14, x.value as u64),
        AVP::CallSerialNumber(x) => one_int(15, x.value as u64),
        AVP::MinimumBps(x) => one_int(16, x.value as u64),
        AVP::MaximumBps(x) => one_int(17, x.value as u64),
        AVP::BearerType(x) => one_int(18, debug_field_u64(x, "data")),
        AVP::FramingType(x) => one_int(19, debug_field_u64(x, "data")),
        AVP::CalledNumber(x) => one_bytes(21, x.value.as_bytes()),
        AVP::CallingNumber(x) => one_bytes(22, x.value.as_bytes()),
        AVP::SubAddress(x) => one_bytes(23, x.value.as_bytes()),
        AVP::TxConnectSpeed(x) => one_int(24, x.value as u64),
        AVP::PhysicalChannelId(x) => one_bytes(25, &x.value),
        AVP::InitialReceivedLcpConfReq(x) => one_bytes(26, &x.value),
        AVP::LastSentLcpConfReq(x) => one_bytes(27, &x.value),
        AVP::LastReceivedLcpConfReq(x) => one_bytes(28, &x.value),
        AVP::ProxyAuthenType(x) => one_int(29, PROXY_AUTHEN_TYPE.code(&variant_name(x)).expect("VF-VIEW: proxy authen variant") as u64),
        AVP::ProxyAuthenName(x) => one_bytes(30, &x.value),
        AVP::ProxyAuthenChallenge(x) => one_bytes(31, &x.value),
        AVP::ProxyAuthenId(x) => one_int(32, x.value as u64),
        AVP::ProxyAuthenResponse(x) => one_bytes(33, &x.value),
        AVP::CallErrors(x) => {
            let mut v = AvpV::new(34);
            v.set_ints(&[
                x.crc_errors as u64,
                x.framing_errors as u64,
                x.hardware_overruns as u64,
                x.buffer_overruns as u64,
                x.timeout_errors as u64,
                x.alignment_errors as u64,
            ]);
            v
        }
        AVP::Accm(x) => {
            let mut v = AvpV::new(35);
            v.b0 = x.send_accm.to_vec();
            v.b1 = x.receive_accm.to_vec();
            v
        }
        AVP::RandomVector(x) => one_bytes(36, &x.value),
        AVP::PrivateGroupId(x) => one_bytes(37, &x.value),
        AVP::RxConnectSpeed(x) => one_int(38, x.value as u64),
        AVP::SequencingRequired(_) => AvpV::new(39),
        AVP::Hidden(x) => hidden_view(x.attribute_type as i64, &x.value),
        // tolerate additive API changes (`#[non_exhaustive]`, a new variant): an unknown variant has no view
        #[allow(unreachable_patterns)]
        _ => panic!("VF-VIEW: AVP variant without a view"),
    }
}
pub fn view_control(c: &ControlMessage) -> CtlV {
    CtlV {
        length: c.length as i64,
        tunnel: c.tunnel_id as i64,
        session: c.session_id as i64,
        ns: c.ns as i64,
        nr: c.nr as i64,
        avps: c.avps.iter().map(view).collect(),
    }
}
pub fn view_data<T: Borrow<[u8]>>(d: &DataMessage<T>) -> DataV {
    DataV {
        prio: d.is_prioritized,
        length: d.length.map(|l| l as i64),
        tunnel: d.tunnel_id as i64,
        session: d.session_id as i64,
        ns_nr: d.ns_nr.map(|p| (p.0 as i64, p.1 as i64)),
        offset: d.offset.map(|o| o as i64),
        data: d.data.borrow().to_vec(),
    }
}
pub fn view_message<T: Borrow<[u8]>>(m: &Message<T>) -> MsgV {
    match m {
        Message::Control(c) => MsgV::Control(view_control(c)),
        Message::Data(d) => MsgV::Data(view_data(d)),
    }
}
/// view of one element of `AVP::try_read_greedy`'s result (error identity dropped)
pub fn view_rec(r: &Result<AVP, DecodeError>) -> Result<AvpV, ()> {
    match r {
        Ok(a) => Ok(view(a)),
        Err(_) => Err(()),
    }
}
/// rec_val: same acceptance, equal value
pub fn rec_val(r: &Result<AVP, DecodeError>, s: &RecV) -> bool {
    match (r, s) {
        (Ok(a), RecV::Ok(v)) => view(a) == *v,
        (Err(_), RecV::Err(_)) => true,
        _ => false,
    }
}
/// rec_err: identity of the error where the specification names it
pub fn rec_err(r: &Result<AVP, DecodeError>, s: &RecV) -> bool {
    match (r, s) {
        (Err(e), RecV::Err(Some(x))) => x.matches(e),
        _ => true,
    }
}

// =====================================================================================================
// building the crate's values from flat values, through the public API only

pub const ALL_MESSAGE_TYPES: [t::MessageType; 14] = [
    t::MessageType::StartControlConnectionRequest,
    t::MessageType::StartControlConnectionReply,
    t::MessageType::StartControlConnectionConnected,
    t::MessageType::StopControlConnectionNotification,
    t::MessageType::Hello,
    t::MessageType::OutgoingCallRequest,
    t::MessageType::OutgoingCallReply,
    t::MessageType::OutgoingCallConnected,
    t::MessageType::IncomingCallRequest,
    t::MessageType::IncomingCallReply,
    t::MessageType::IncomingCallConnected,
    t::MessageType::CallDisconnectNotify,
    t::MessageType::WanErrorNotify,
    t::MessageType::SetLinkInfo,
];
pub const ALL_ERROR_TYPES: [t::result_code::ErrorType; 9] = [
    t::result_code::ErrorType::Ok,
    t::result_code::ErrorType::NoControlConnectionExists,
    t::result_code::ErrorType::WrongLength,
    t::result_code::ErrorType::OutOfRangeOrBadReserved,
    t::result_code::ErrorType::InsufficientResources,
    t::result_code::ErrorType::InvalidSessionId,
    t::result_code::ErrorType::Generic,
    t::result_code::ErrorType::TryAnotherDestination,
    t::result_code::ErrorType::UnknownMandatoryAvp,
];
pub const ALL_PROXY_AUTHEN_TYPES: [t::ProxyAuthenType; 6] = [
    t::ProxyAuthenType::Reserved,
    t::ProxyAuthenType::TextualUserNamePasswordExchange,
    t::ProxyAuthenType::PppChap,
    t::ProxyAuthenType::PppPap,
    t::ProxyAuthenType::NoAuthentication,
    t::ProxyAuthenType::MicrosoftChapVersion1,
];
pub const ALL_STOP_CCN_CODES: [t::result_code::StopCcnCode; 8] = [
    t::result_code::StopCcnCode::Reserved,
    t::result_code::StopCcnCode::GeneralRequestToClearControlConnection,
    t::result_code::StopCcnCode::GeneralError,
    t::result_code::StopCcnCode::ControlChannelAlreadyExists,
    t::result_code::StopCcnCode::RequesterNotAuthorizedToEstablishControlChannel,
    t::result_code::StopCcnCode::RequesterProtocolVersionUnsupported,
    t::result_code::StopCcnCode::RequesterShutdown,
    t::result_code::StopCcnCode::FsmError,
];
pub const ALL_CDN_CODES: [t::result_code::CdnCode; 12] = [
    t::result_code::CdnCode::Reserved,
    t::result_code::CdnCode::CallDisconnectedLossOfCarrier,
    t::result_code::CdnCode::CallDisconnectedWithErrorCode,
    t::result_code::CdnCode::CallDisconnectedAdministrative,
    t::result_code::CdnCode::CallFailedTemporarilyUnavailable,
    t::result_code::CdnCode::CallFailedPermanentlyUnavailable,
    t::result_code::CdnCode::InvalidDestination,
    t::result_code::CdnCode::CallFailedNoCarrier,
    t::result_code::CdnCode::CallFailedBusySignal,
    t::result_code::CdnCode::CallFailedNoDialTone,
    t::result_code::CdnCode::CallEstablishTimeout,
    t::result_code::CdnCode::CallNoFramingDetected,
];
/// the named value the specification table assigns to code x
fn by_code<T: Copy + std::fmt::Debug>(all: &[T], tab: &EnumTab, x: u64) -> Option<T> {
    let name = tab.of(x)?;
    all.iter().copied().find(|v| variant_name(v) == name)
}
pub fn message_type_of(x: u64) -> Option<t::MessageType> {
    by_code(&ALL_MESSAGE_TYPES, &MESSAGE_TYPE, x)
}
pub fn error_type_of(x: u64) -> Option<t::result_code::ErrorType> {
    by_code(&ALL_ERROR_TYPES, &ERROR_TYPE, x)
}
pub fn proxy_authen_type_of(x: u64) -> Option<t::ProxyAuthenType> {
    by_code(&ALL_PROXY_AUTHEN_TYPES, &PROXY_AUTHEN_TYPE, x)
}

fn u8_of(x: u64) -> Option<u8> {
    u8::try_from(x).ok()
}
fn u16_of(x: u64) -> Option<u16> {
    u16::try_from(x).ok()
}
fn u32_of(x: u64) -> Option<u32> {
    u32::try_from(x).ok()
}
fn arr<const N: usize>(b: &[u8]) -> Option<[u8; N]> {
    b.try_into().ok()
}
fn string(b: &[u8]) -> Option<String> {
    String::from_utf8(b.to_vec()).ok()
}

/// Build the crate's value whose view is `v`, when the Rust types can represent it (this is wider than
/// the encodable domain: empty or oversize variable-length parts are representable).  `None` otherwise.
/// The four bitmask types have a private word: they are built by `new` when the word has only bits 6/7,
/// else by their own `try_read` on the 4 octets of the word.
pub fn build(v: &AvpV) -> Option<AVP> {
    if v.hidden {
        if !(v.n == 0 && v.ints() == [0; 6] && v.b1.is_empty()) {
            return None;
        }
        return Some(AVP::Hidden(t::Hidden { attribute_type: u16::try_from(v.kind).ok()?, value: v.b0.clone() }));
    }
    // slots the kind does not use must be zero / empty
    let used_i;
    let used_b;
    if v.kind == 1 {
        used_i = 2;
        used_b = 1;
    } else {
        let row = kind_row(v.kind)?;
        used_i = row.layout.iter().filter(|i| matches!(i, Int(_) | Enum(_))).count();
        used_b = row.layout.iter().filter(|i| matches!(i, Arr(_) | Rest | Utf8 | OptUtf8)).count();
    }
    if v.ints()[used_i..].iter().any(|x| *x != 0) || v.bs()[used_b..].iter().any(|b| !b.is_empty()) {
        return None;
    }
    if v.kind != 1 && v.kind != 12 && v.n != 0 {
        return None;
    }
    macro_rules! mask {
        ($T:ident) => {{
            let w = u32_of(v.i0)?;
            if w & !0xc0 == 0 {
                // bit 6 / bit 7 by the constructor; which parameter is which bit is the table's (Appendix B)
                let b6 = w & 0x40 != 0;
                let b7 = w & 0x80 != 0;
                let x = mask_new(stringify!($T), b6, b7)?;
                if view(&x).i0 == v.i0 {
                    return Some(x);
                }
            }
            let octets = w.to_be_bytes();
            let mut r = SliceReader::from(&octets);
            AVP::$T(t::$T::try_read::<&[u8]>(&mut r).ok()?)
        }};
    }
    Some(match v.kind {
        0 => AVP::MessageType(message_type_of(v.i0)?),
        1 => {
            let code = t::result_code::CodeValue::from(u16_of(v.i0)?);
            let error = match v.n {
                0 => {
                    if v.i1 != 0 || !v.b0.is_empty() {
                        return None;
                    }
                    None
                }
                1 => {
                    if !v.b0.is_empty() {
                        return None;
                    }
                    Some(t::result_code::Error { error_type: error_type_of(v.i1)?, error_message: None })
                }
                2 => Some(t::result_code::Error { error_type: error_type_of(v.i1)?, error_message: Some(string(&v.b0)?) }),
                _ => return None,
            };
            AVP::ResultCode(t::ResultCode { code, error })
        }
        2 => AVP::ProtocolVersion(t::ProtocolVersion { version: u8_of(v.i0)?, revision: u8_of(v.i1)? }),
        3 => mask!(FramingCapabilities),
        4 => mask!(BearerCapabilities),
        5 => AVP::TieBreaker(t::TieBreaker { value: v.i0 }),
        6 => AVP::FirmwareRevision(t::FirmwareRevision { value: u16_of(v.i0)? }),
        7 => AVP::HostName(t::HostName { value: v.b0.clone() }),
        8 => AVP::VendorName(t::VendorName { value: string(&v.b0)? }),
        9 => AVP::AssignedTunnelId(t::AssignedTunnelId { value: u16_of(v.i0)? }),
        10 => AVP::ReceiveWindowSize(t::ReceiveWindowSize { value: u16_of(v.i0)? }),
        11 => AVP::Challenge(t::Challenge { value: v.b0.clone() }),
        12 => {
            let advisory = match v.n {
                0 => {
                    if !v.b0.is_empty() {
                        return None;
                    }
                    None
                }
                1 => Some(string(&v.b0)?),
                _ => return None,
            };
            AVP::Q931CauseCode(t::Q931CauseCode { cause_code: u16_of(v.i0)?, cause_msg: u8_of(v.i1)?, advisory })
        }
        13 => AVP::ChallengeResponse(t::ChallengeResponse { value: arr(&v.b0)? }),
        14 => AVP::AssignedSessionId(t::AssignedSessionId { value: u16_of(v.i0)? }),
        15 => AVP::CallSerialNumber(t::CallSerialNumber { value: u32_of(v.i0)? }),
        16 => AVP::MinimumBps(t::MinimumBps { value: u32_of(v.i0)? }),
        17 => AVP::MaximumBps(t::MaximumBps { value: u32_of(v.i0)? }),
        18 => mask!(BearerType),
        19 => mask!(FramingType),
        21 => AVP::CalledNumber(t::CalledNumber { value: string(&v.b0)? }),
        22 => AVP::CallingNumber(t::CallingNumber { value: string(&v.b0)? }),
        23 => AVP::SubAddress(t::SubAddress { value: string(&v.b0)? }),
        24 => AVP::TxConnectSpeed(t::TxConnectSpeed { value: u32_of(v.i0)? }),
        25 => AVP::PhysicalChannelId(t::PhysicalChannelId { value: arr(&v.b0)? }),
        26 => AVP::InitialReceivedLcpConfReq(t::InitialReceivedLcpConfReq { value: v.b0.clone() }),
        27 => AVP::LastSentLcpConfReq(t::LastSentLcpConfReq { value: v.b0.clone() }),
        28 => AVP::LastReceivedLcpConfReq(t::LastReceivedLcpConfReq { value: v.b0.clone() }),
        29 => AVP::ProxyAuthenType(proxy_authen_type_of(v.i0)?),
        30 => AVP::ProxyAuthenName(t::ProxyAuthenName { value: v.b0.clone() }),
        31 => AVP::ProxyAuthenChallenge(t::ProxyAuthenChallenge { value: v.b0.clone() }),
        32 => AVP::ProxyAuthenId(t::ProxyAuthenId { value: u8_of(v.i0)? }),
        33 => AVP::ProxyAuthenResponse(t::ProxyAuthenResponse { value: v.b0.clone() }),
        34 => AVP::CallErrors(t::CallErrors {
            crc_errors: u32_of(v.i0)?,
            framing_errors: u32_of(v.i1)?,
            hardware_overruns: u32_of(v.i2)?,
            buffer_overruns: u32_of(v.i3)?,
            timeout_errors: u32_of(v.i4)?,
            alignment_errors: u32_of(v.i5)?,
        }),
        35 => AVP::Accm(t::Accm { send_accm: arr(&v.b0)?, receive_accm: arr(&v.b1)? }),
        36 => AVP::RandomVector(t::RandomVector { value: arr(&v.b0)? }),
        37 => AVP::PrivateGroupId(t::PrivateGroupId { value: v.b0.clone() }),
        38 => AVP::RxConnectSpeed(t::RxConnectSpeed { value: u32_of(v.i0)? }),
        39 => AVP::SequencingRequired(t::SequencingRequired {}),
        _ => return None,
    })
}
/// constructor call with (bit 6, bit 7) mapped to the parameters by Appendix B:
/// FramingCapabilities::new(async = bit 6, sync = bit 7); BearerCapabilities::new(digital = bit 7, analog = bit 6);
/// BearerType::new(analog = bit 6, digital = bit 7); FramingType::new(analog = bit 6, digital = bit 7)
pub fn mask_new(kind: &str, b6: bool, b7: bool) -> Option<AVP> {
    Some(match kind {
        "FramingCapabilities" => AVP::FramingCapabilities(t::FramingCapabilities::new(b6, b7)),
        "BearerCapabilities" => AVP::BearerCapabilities(t::BearerCapabilities::new(b7, b6)),
        "BearerType" => AVP::BearerType(t::BearerType::new(b6, b7)),
        "FramingType" => AVP::FramingType(t::FramingType::new(b6, b7)),
        _ => return None,
    })
}
pub fn build_control(m: &CtlV) -> Option<ControlMessage> {
    Some(ControlMessage {
        length: u16::try_from(m.length).ok()?,
        tunnel_id: u16::try_from(m.tunnel).ok()?,
        session_id: u16::try_from(m.session).ok()?,
        ns: u16::try_from(m.ns).ok()?,
        nr: u16::try_from(m.nr).ok()?,
        avps: m.avps.iter().map(build).collect::<Option<Vec<_>>>()?,
    })
}
pub fn build_data(d: &DataV) -> Option<DataMessage<Vec<u8>>> {
    Some(DataMessage {
        is_prioritized: d.prio,
        length: match d.length {
            Some(l) => Some(u16::try_from(l).ok()?),
            None => None,
        },
        tunnel_id: u16::try_from(d.tunnel).ok()?,
        session_id: u16::try_from(d.session).ok()?,
        ns_nr: match d.ns_nr {
            Some((a, b)) => Some((u16::try_from(a).ok()?, u16::try_from(b).ok()?)),
            None => None,
        },
        offset: match d.offset {
            Some(o) => Some(u16::try_from(o).ok()?),
            None => None,
        },
        data: d.data.clone(),
    })
}
pub fn build_message(m: &MsgV) -> Option<Message<Vec<u8>>> {
    Some(match m {
        MsgV::Control(c) => Message::Control(build_control(c)?),
        MsgV::Data(d) => Message::Data(build_data(d)?),
    })
}
