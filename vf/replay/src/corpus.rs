//! Deterministic case generators shared by the property searches.  Values come from the reference
//! tables (src/reference.rs), never from the crate under test.
#![allow(dead_code)]

use crate::reference as rf;
use crate::reference::{AvpV, Item, KindRow};

pub fn pat(n: usize, seed: usize) -> Vec<u8> {
    (0..n).map(|i| ((i * 7 + seed * 13 + 1) % 251) as u8).collect()
}
pub fn ascii(n: usize, seed: usize) -> Vec<u8> {
    (0..n).map(|i| b'a' + ((i + seed) % 26) as u8).collect()
}
/// valid UTF-8 of exactly n octets that uses 2-, 3- and 4-octet sequences when they fit
pub fn utf8_mixed(n: usize) -> Vec<u8> {
    let mut out: Vec<u8> = vec![];
    let pieces: [&str; 4] = ["\u{e9}", "\u{20ac}", "\u{1f600}", "z"];
    let mut k = 0;
    while out.len() < n {
        let p = pieces[k % 4].as_bytes();
        if out.len() + p.len() <= n {
            out.extend_from_slice(p);
        } else {
            out.push(b'q');
        }
        k += 1;
    }
    out
}
pub const INVALID_UTF8: [&[u8]; 8] = [
    &[0xff],
    &[0x80],
    &[0x61, 0x80],
    &[0xc3],
    &[0xc0, 0x80],
    &[0xed, 0xa0, 0x80],
    &[0xf0, 0x9f, 0x98],
    &[0xf4, 0x90, 0x80, 0x80],
];
/// payload lengths of variable-length kinds: small, around one length octet (AVP length 255/256/257 and
/// payload 255/256/257), and the maximum 1017 (AVP length 1023)
pub const VAR_LENS: [usize; 15] = [1, 2, 3, 15, 16, 17, 249, 250, 251, 255, 256, 257, 1000, 1016, 1017];
pub const OVERSIZE_LENS: [usize; 9] = [1018, 1019, 1024, 1030, 2041, 2042, 4000, 65530, 70000];

fn int_max(w: usize) -> u64 {
    match w {
        1 => 0xff,
        2 => 0xffff,
        4 => 0xffff_ffff,
        _ => u64::MAX,
    }
}
fn int_distinct(w: usize, j: usize) -> u64 {
    let base: u64 = 0x0102030405060708u64.wrapping_add(0x1010101010101010u64.wrapping_mul(j as u64 + 1));
    match w {
        1 => (base >> 56) & 0xff,
        2 => (base >> 48) & 0xffff,
        4 => (base >> 32) & 0xffff_ffff,
        _ => base,
    }
}

/// values of one table row: integer boundary patterns x octet-string variants
fn row_values(row: &KindRow, full: bool) -> Vec<AvpV> {
    let int_items: Vec<usize> = row
        .layout
        .iter()
        .filter_map(|i| match i {
            Item::Int(w) => Some(*w),
            Item::Enum(_) => Some(0),
            _ => None,
        })
        .collect();
    // integer assignments
    let mut int_sets: Vec<Vec<u64>> = vec![];
    let enum_tab = row.layout.iter().find_map(|i| if let Item::Enum(t) = i { Some(*t) } else { None });
    if let Some(tab) = enum_tab {
        for (_, c) in tab.variants {
            int_sets.push(vec![*c as u64]);
        }
    } else if int_items.is_empty() {
        int_sets.push(vec![]);
    } else {
        int_sets.push(int_items.iter().map(|_| 0).collect());
        int_sets.push(int_items.iter().map(|w| int_max(*w)).collect());
        int_sets.push(int_items.iter().enumerate().map(|(j, w)| int_distinct(*w, j)).collect());
        if int_items.len() > 1 {
            for j in 0..int_items.len() {
                int_sets.push(int_items.iter().enumerate().map(|(k, w)| if k == j { int_max(*w) } else { 0 }).collect());
            }
        }
        for x in [1u64, 0x80, 0xff, 0x100, 0x7fff, 0x8000, 0xffff, 0x10000, 0x7fff_ffff, 0x8000_0000, 0x1_0000_0000, 0x8000_0000_0000_0000] {
            if int_items.iter().all(|w| x <= int_max(*w)) {
                int_sets.push(int_items.iter().map(|_| x).collect());
            }
        }
    }
    // octet-string assignments: (n, b0, b1)
    let b_items: Vec<&Item> = row.layout.iter().filter(|i| matches!(i, Item::Arr(_) | Item::Rest | Item::Utf8 | Item::OptUtf8)).collect();
    let mut b_sets: Vec<(i64, Vec<Vec<u8>>)> = vec![];
    if b_items.is_empty() {
        b_sets.push((0, vec![]));
    } else if b_items.len() == 2 {
        // two fixed arrays (Accm)
        let (a, b) = match (b_items[0], b_items[1]) {
            (Item::Arr(a), Item::Arr(b)) => (*a, *b),
            _ => unreachable!(),
        };
        b_sets.push((0, vec![vec![0; a], vec![0; b]]));
        b_sets.push((0, vec![vec![0xff; a], vec![0; b]]));
        b_sets.push((0, vec![vec![0; a], vec![0xff; b]]));
        b_sets.push((0, vec![pat(a, 1), pat(b, 2)]));
    } else {
        match b_items[0] {
            Item::Arr(n) => {
                b_sets.push((0, vec![vec![0; *n]]));
                b_sets.push((0, vec![vec![0xff; *n]]));
                b_sets.push((0, vec![pat(*n, 3)]));
            }
            Item::Rest => {
                b_sets.push((0, vec![vec![0x00]]));
                b_sets.push((0, vec![vec![0xff]]));
                b_sets.push((0, vec![vec![0xc3, 0x28]])); // not UTF-8: fine for opaque octets
                for n in VAR_LENS {
                    if full || n <= 17 || n == 250 || n == 1017 {
                        b_sets.push((0, vec![pat(n, n)]));
                    }
                }
            }
            Item::Utf8 => {
                b_sets.push((0, vec![vec![0x7f]]));
                b_sets.push((0, vec![vec![0x00]]));
                for n in VAR_LENS {
                    if full || n <= 17 || n == 250 || n == 1017 {
                        b_sets.push((0, vec![ascii(n, n)]));
                    }
                }
                for n in [2usize, 3, 4, 9, 250, 1017] {
                    b_sets.push((0, vec![utf8_mixed(n)]));
                }
            }
            Item::OptUtf8 => {
                let fixed = rf::min_len(row.layout);
                b_sets.push((0, vec![vec![]]));
                for n in [1usize, 2, 3, 16, 250 - fixed, 1016 - fixed, 1017 - fixed] {
                    b_sets.push((1, vec![ascii(n, n)]));
                }
                b_sets.push((1, vec![utf8_mixed(9)]));
            }
            _ => unreachable!(),
        }
    }
    let mut out = vec![];
    for (bi, (n, bs)) in b_sets.iter().enumerate() {
        for (ii, ints) in int_sets.iter().enumerate() {
            // full cross product only on the small axis
            if b_sets.len() > 1 && int_sets.len() > 1 && bi > 2 && ii > 2 {
                continue;
            }
            let mut v = AvpV::new(row.num as i64);
            v.n = *n;
            v.set_ints(ints);
            v.b0 = bs.first().cloned().unwrap_or_default();
            v.b1 = bs.get(1).cloned().unwrap_or_default();
            out.push(v);
        }
    }
    out
}

fn result_code_values() -> Vec<AvpV> {
    let mut out = vec![];
    for code in [0u64, 1, 2, 7, 8, 11, 12, 255, 256, 0x1234, 65535] {
        let mut v = AvpV::new(1);
        v.i0 = code;
        out.push(v);
    }
    for (_, e) in rf::ERROR_TYPE.variants {
        let mut v = AvpV::new(1);
        v.n = 1;
        v.i0 = 1;
        v.i1 = *e as u64;
        out.push(v);
    }
    let mut v = AvpV::new(1);
    v.n = 1;
    v.i0 = 65535;
    v.i1 = 8;
    out.push(v);
    for n in [1usize, 2, 3, 16, 246, 1012, 1013] {
        let mut v = AvpV::new(1);
        v.n = 2;
        v.i0 = 2;
        v.i1 = 6;
        v.b0 = ascii(n, n);
        out.push(v);
    }
    let mut v = AvpV::new(1);
    v.n = 2;
    v.i0 = 0x0102;
    v.i1 = 3;
    v.b0 = utf8_mixed(10);
    out.push(v);
    out
}
fn hidden_values() -> Vec<AvpV> {
    let mut out = vec![];
    for kind in [0i64, 1, 7, 20, 39, 40, 255, 256, 65535] {
        for n in [0usize, 1, 2, 15, 16, 17, 32, 48, 250, 1008, 1016, 1017] {
            if kind != 7 && n > 17 && n != 1017 {
                continue;
            }
            out.push(rf::hidden_view(kind, &pat(n, kind as usize + n)));
        }
    }
    out
}

/// the encodable domain (every element satisfies `rf::avp_encodable`): all 39 kinds and hidden AVPs at
/// their boundary values
pub fn encodable_avps(full: bool) -> Vec<AvpV> {
    let mut out = vec![];
    for row in rf::KINDS {
        out.extend(row_values(row, full));
    }
    out.extend(result_code_values());
    out.extend(hidden_values());
    for v in &out {
        assert!(rf::avp_encodable(v), "corpus value outside the encodable domain: {v:?}");
    }
    out
}
/// non-hidden subset
pub fn encodable_plain_avps(full: bool) -> Vec<AvpV> {
    encodable_avps(full).into_iter().filter(|v| !v.hidden).collect()
}
/// a smallest encodable value of every assigned kind
pub fn sample_value(kind: i64) -> Option<AvpV> {
    if kind == 1 {
        return Some(result_code_values().remove(1));
    }
    let row = rf::kind_row(kind)?;
    row_values(row, false).into_iter().min_by_key(|v| rf::payload_enc(v).len())
}
/// kinds whose payload has a variable-length part: (kind, octets before it, must be UTF-8, optional)
pub fn variable_kinds() -> Vec<(i64, usize, bool, bool)> {
    let mut out = vec![(1i64, 4usize, true, true)];
    for row in rf::KINDS {
        match row.layout.last() {
            Some(Item::Rest) => out.push((row.num as i64, rf::min_len(row.layout) - 1, false, false)),
            Some(Item::Utf8) => out.push((row.num as i64, rf::min_len(row.layout) - 1, true, false)),
            Some(Item::OptUtf8) => out.push((row.num as i64, rf::min_len(row.layout), true, true)),
            _ => {}
        }
    }
    out
}
/// a value of a variable-length kind whose variable part has n octets (n = 0: representable, not encodable)
pub fn var_value(kind: i64, n: usize) -> AvpV {
    let utf8 = variable_kinds().iter().find(|k| k.0 == kind).map(|k| k.2).unwrap_or(false);
    // long parts are one repeated octet so that replay lines stay short
    let body = if n > 40 { vec![b'a' + (n % 26) as u8; n] } else if utf8 { ascii(n, n) } else { pat(n, n) };
    let mut v = AvpV::new(kind);
    match kind {
        1 => {
            v.n = 2;
            v.i0 = 2;
            v.i1 = 6;
            v.b0 = body;
        }
        12 => {
            v.n = 1;
            v.i0 = 0x0102;
            v.i1 = 3;
            v.b0 = body;
        }
        _ => v.b0 = body,
    }
    v
}
/// values the Rust types represent but the encoder must refuse (AVP longer than 1023 octets)
pub fn oversize_avps() -> Vec<AvpV> {
    let mut out = vec![];
    for (kind, fixed, _, _) in variable_kinds() {
        for n in OVERSIZE_LENS {
            if !(kind == 7 || kind == 8 || kind == 1 || kind == 12) && n > 1024 {
                continue;
            }
            out.push(var_value(kind, n - fixed));
        }
    }
    for n in OVERSIZE_LENS {
        out.push(rf::hidden_view(7, &vec![0xa0 + (n % 16) as u8; n]));
    }
    out
}
/// representable values with an empty variable-length part (encodable by the encoder, rejected by the decoder)
pub fn empty_var_avps() -> Vec<AvpV> {
    variable_kinds().into_iter().map(|(k, _, _, _)| var_value(k, 0)).collect()
}

// =====================================================================================================
// wire forms of AVP records

/// one AVP record: `flags` = low six bits of octet 0 (M = 1, H = 2, reserved = 4..32), explicit length field
pub fn rec_raw(flags: u8, len_field: usize, vendor: u16, kind: u16, payload: &[u8]) -> Vec<u8> {
    let mut r = vec![(((len_field >> 8) & 3) as u8) << 6 | (flags & 0x3f), (len_field & 0xff) as u8];
    r.extend(vendor.to_be_bytes());
    r.extend(kind.to_be_bytes());
    r.extend(payload);
    r
}
/// well-formed record: M set, vendor 0, exact length
pub fn rec(kind: u16, payload: &[u8]) -> Vec<u8> {
    rec_raw(1, 6 + payload.len(), 0, kind, payload)
}

/// payloads of one attribute number: every specified value's payload, all its truncations, with surplus
/// octets, enum codes around the assigned sets, invalid UTF-8
pub fn payloads_of(kind: i64, full: bool) -> Vec<Vec<u8>> {
    let mut out: Vec<Vec<u8>> = vec![vec![]];
    let values: Vec<AvpV> = if kind == 1 {
        result_code_values()
    } else if let Some(row) = rf::kind_row(kind) {
        row_values(row, full)
    } else {
        vec![]
    };
    for v in &values {
        let p = rf::payload_enc(v);
        if p.len() <= 40 {
            for n in 0..p.len() {
                out.push(p[..n].to_vec());
            }
            let mut q = p.clone();
            q.push(0);
            out.push(q.clone());
            q.extend([0xff, 0xfe]);
            out.push(q);
        }
        out.push(p);
    }
    if !rf::kind_assigned(kind) {
        out.push(vec![0]);
        out.push(pat(10, 1));
    }
    // enumerated codes
    let codes: Vec<u64> = (0..=20).chain([255u64, 256, 257, 0x0100, 0x0600, 0x7fff, 0x8001, 65534, 65535]).collect();
    match kind {
        0 | 29 => {
            for c in &codes {
                out.push(rf::enc16(*c));
                let mut p = rf::enc16(*c);
                p.push(9);
                out.push(p);
            }
        }
        1 => {
            for c in &codes {
                let mut p = rf::enc16(1);
                p.extend(rf::enc16(*c));
                out.push(p.clone());
                p.extend(b"x");
                out.push(p);
            }
            // single trailing octet after the code
            out.push(vec![0, 1, 0xff]);
        }
        _ => {}
    }
    // text
    if let Some((_, fixed, true, _)) = variable_kinds().into_iter().find(|k| k.0 == kind) {
        let head: Vec<u8> = if kind == 1 { vec![0, 2, 0, 6] } else { pat(fixed, 5) };
        for bad in INVALID_UTF8 {
            let mut p = head.clone();
            p.extend(bad.iter());
            out.push(p.clone());
            let mut q = head.clone();
            q.extend(b"ok");
            q.extend(bad.iter());
            out.push(q);
            p.extend(b"tail");
            out.push(p);
        }
        for n in [2usize, 3, 4, 9] {
            let mut p = head.clone();
            p.extend(utf8_mixed(n));
            out.push(p);
        }
    }
    out.sort();
    out.dedup();
    out.sort_by_key(|p| p.len());
    out
}
/// attribute numbers exercised on the wire: all assigned ones, the gaps, and the far end
pub fn wire_kinds() -> Vec<i64> {
    (0..=42).chain([255, 256, 0x0700, 0x8000, 65535]).collect()
}

/// single records with header variants
pub fn header_variant_records() -> Vec<(String, Vec<u8>)> {
    let mut out = vec![];
    for kind in wire_kinds() {
        let ps = payloads_of(kind, false);
        // a valid payload if there is one, and the shortest payloads
        let mut chosen: Vec<Vec<u8>> = ps.iter().take(2).cloned().collect();
        if let Some(v) = sample_value(kind) {
            chosen.push(rf::payload_enc(&v));
        }
        for p in chosen {
            let exact = 6 + p.len();
            for flags in [0x00u8, 0x01, 0x02, 0x03, 0x05, 0x21, 0x3d, 0x3f, 0x3e] {
                out.push((format!("k{kind}-flags{flags:02x}"), rec_raw(flags, exact, 0, kind as u16, &p)));
            }
            for vendor in [1u16, 0x0100, 0xffff] {
                out.push((format!("k{kind}-vendor{vendor}"), rec_raw(1, exact, vendor, kind as u16, &p)));
                out.push((format!("k{kind}-vendor{vendor}-hidden"), rec_raw(3, exact, vendor, kind as u16, &p)));
            }
            for lf in (0..=7).chain([exact.saturating_sub(1), exact + 1, exact + 6, 1023]) {
                out.push((format!("k{kind}-len{lf}"), rec_raw(1, lf, 0, kind as u16, &p)));
            }
        }
    }
    out
}

/// an alphabet of records for building lists: (name, octets, well-delimited, individually decodable)
pub struct Piece {
    pub name: &'static str,
    pub bytes: Vec<u8>,
    /// the length field covers exactly these octets (>= 6)
    pub delimited: bool,
}
pub fn pieces() -> Vec<Piece> {
    let p = |name: &'static str, bytes: Vec<u8>, delimited: bool| Piece { name, bytes, delimited };
    vec![
        p("mt", rec(0, &[0, 1]), true),
        p("host", rec(7, b"ab"), true),
        p("hidden", rec_raw(3, 6 + 16, 0, 9, &pat(16, 1)), true),
        p("seqreq", rec(39, &[]), true),
        p("short9", rec(9, &[7]), true),
        p("unk20", rec(20, &[1, 2]), true),
        p("vendor", rec_raw(1, 8, 9, 9, &[0, 5]), true),
        p("badutf8", rec(8, &[0x61, 0xff]), true),
        p("badmt", rec(0, &[0, 5]), true),
        p("baderr", rec(1, &[0, 1, 0, 9]), true),
        p("len3", rec_raw(1, 3, 0, 9, &[0, 5]), false),
        p("lenbig", rec_raw(1, 40, 0, 9, &[0, 5]), false),
        p("junk3", vec![1, 2, 3], false),
    ]
}
/// all sequences of up to `k` pieces (indices into `pieces()`)
pub fn piece_lists(k: usize, n: usize) -> Vec<Vec<usize>> {
    let mut out: Vec<Vec<usize>> = vec![vec![]];
    let mut level: Vec<Vec<usize>> = vec![vec![]];
    for _ in 0..k {
        let mut next = vec![];
        for l in &level {
            for i in 0..n {
                let mut m = l.clone();
                m.push(i);
                next.push(m);
            }
        }
        out.extend(next.iter().cloned());
        level = next;
    }
    out
}
pub fn join_pieces(ps: &[Piece], idx: &[usize]) -> (String, Vec<u8>) {
    let mut b = vec![];
    let mut names = vec![];
    for i in idx {
        b.extend(&ps[*i].bytes);
        names.push(ps[*i].name);
    }
    (if names.is_empty() { "empty".to_string() } else { names.join("+") }, b)
}

// =====================================================================================================
// wire forms of messages

pub const W_CONTROL: u16 = 0x1320; // T, L, S, version 2

pub fn control_wire(word: u16, length: u16, ids: [u16; 4], body: &[u8]) -> Vec<u8> {
    let mut b = word.to_be_bytes().to_vec();
    b.extend(length.to_be_bytes());
    for x in ids {
        b.extend(x.to_be_bytes());
    }
    b.extend(body);
    b
}
/// well-formed control message around a body
pub fn control_ok(body: &[u8]) -> Vec<u8> {
    control_wire(W_CONTROL, (12 + body.len()) as u16, [0x0102, 0x0304, 0x0506, 0x0708], body)
}
pub fn control_words() -> Vec<u16> {
    vec![
        0x1320, // canonical
        0x1120, // no L
        0x0320, // no S
        0x0120, // neither
        0x9320, // P
        0x5320, // O
        0xd320, // P and O
        0x1321, 0x1328, 0x1720, 0x1b20, 0x3320, // one reserved bit each
        0x3f2f, // all reserved bits
        0x1300, 0x1310, 0x1330, 0x13f0, // versions 0 1 3 15
        0xffff, // everything
    ]
}
/// bodies for control messages: name, octets
pub fn control_bodies() -> Vec<(String, Vec<u8>)> {
    let ps = pieces();
    let mut out = vec![];
    for l in piece_lists(2, ps.len()) {
        out.push(join_pieces(&ps, &l));
    }
    // longer lists that start well
    for l in [vec![0usize, 1, 2, 3], vec![0, 4, 5, 6], vec![0, 1, 7, 1], vec![0, 6, 1, 10], vec![0, 1, 1, 12], vec![0, 8, 9, 11]] {
        out.push(join_pieces(&ps, &l));
    }
    // every kind once after a Message Type (non-canonical: surplus octet, M clear)
    let mut all = rec(0, &[0, 2]);
    for k in rf::assigned_kinds() {
        if k == 0 {
            continue;
        }
        let v = sample_value(k).unwrap();
        all.extend(rec(k as u16, &rf::payload_enc(&v)));
    }
    out.push(("all-kinds".into(), all));
    let mut nc = rec_raw(0x3c, 8, 0, 0, &[0, 3]);
    nc.extend(rec_raw(0, 6 + 3, 0, 9, &[0, 5, 0xee]));
    nc.extend(rec_raw(0x21, 6 + 3, 0, 1, &[0, 1, 0xff]));
    nc.extend(rec_raw(1, 6 + 5, 0, 39, &[1, 2, 3, 4, 5]));
    nc.extend(rec_raw(1, 6 + 12, 0, 35, &pat(12, 1)));
    nc.extend([9, 9, 9, 9, 9]);
    out.push(("non-canonical".into(), nc));
    let mut big = rec(0, &[0, 1]);
    big.extend(rec(7, &pat(1017, 1)));
    big.extend(rec(8, &ascii(250, 1)));
    out.push(("big".into(), big));
    // bodies too short to hold any AVP record (1..5 octets): accepted with an empty AVP list, still consumed entirely
    for n in 1..=5usize {
        out.push((format!("short-{n}"), pat(n, n)));
    }
    out
}

#[derive(Clone, Debug)]
pub struct DataCase {
    pub name: String,
    pub bytes: Vec<u8>,
}
pub fn data_word(l: bool, s: bool, o: bool, p: bool, extra: u16) -> u16 {
    (rf::flag_word(false, l, s, o, p, 2) as u16) ^ extra
}
/// data messages over all L/S/O/P combinations, offset sizes, payload lengths, Length variants, trailing octets
pub fn data_cases() -> Vec<DataCase> {
    let mut out = vec![];
    for bits in 0..16u8 {
        let (l, s, o, p) = (bits & 1 != 0, bits & 2 != 0, bits & 4 != 0, bits & 8 != 0);
        for extra in [0u16, 0x0010 ^ 0x0020 /* version 1 */, 0x0001, 0x2c0f] {
            if extra != 0 && bits % 5 != 0 && bits != 7 {
                continue;
            }
            let w = data_word(l, s, o, p, extra);
            let offs: Vec<Option<u16>> = if o { vec![Some(0), Some(1), Some(2), Some(5), Some(100), Some(65535)] } else { vec![None] };
            for off in offs {
                for plen in [0usize, 1, 2, 300] {
                    let pad = match off {
                        Some(n) if (n as usize) <= 5 => n as usize,
                        _ => 0,
                    };
                    let hdr = 2 + if l { 2 } else { 0 } + 4 + if s { 4 } else { 0 } + if o { 2 } else { 0 };
                    let exact = hdr + pad + plen;
                    let lens: Vec<Option<usize>> = if l {
                        vec![Some(exact), Some(exact.saturating_sub(1)), Some(exact + 1), Some(hdr + pad), Some(hdr), Some(0), Some(5), Some(65535)]
                    } else {
                        vec![None]
                    };
                    for len in lens {
                        for trail in [0usize, 1, 3] {
                            if plen == 300 && (trail == 1 || extra != 0) {
                                continue;
                            }
                            let mut b = w.to_be_bytes().to_vec();
                            if let Some(x) = len {
                                b.extend((x as u16).to_be_bytes());
                            }
                            b.extend([0x12, 0x34, 0x56, 0x78]);
                            if s {
                                b.extend([0xaa, 0xbb, 0xcc, 0xdd]);
                            }
                            if let Some(n) = off {
                                b.extend(n.to_be_bytes());
                            }
                            b.extend(pat(pad, 9));
                            b.extend(pat(plen, 3));
                            b.extend(pat(trail, 7));
                            out.push(DataCase {
                                name: format!(
                                    "data-{}{}{}{}-x{extra:04x}-off{}-pl{plen}-len{}-tr{trail}",
                                    if l { "L" } else { "" },
                                    if s { "S" } else { "" },
                                    if o { "O" } else { "" },
                                    if p { "P" } else { "" },
                                    off.map(|n| n.to_string()).unwrap_or("none".into()),
                                    len.map(|n| n.to_string()).unwrap_or("none".into())
                                ),
                                bytes: b,
                            });
                        }
                    }
                }
            }
        }
    }
    out
}

/// the whole message corpus: (name, octets)
pub fn message_corpus() -> Vec<(String, Vec<u8>)> {
    let mut out: Vec<(String, Vec<u8>)> = vec![];
    let bodies = control_bodies();
    for (bi, (bname, body)) in bodies.iter().enumerate() {
        let exact = 12 + body.len();
        for w in control_words() {
            // all words on a few bodies, the canonical and two odd words on all
            if !(bi < 40 || bi % 5 == 0 || bi + 3 >= bodies.len() || w == 0x1320 || w == 0x3f2f || w == 0xd320) {
                continue;
            }
            out.push((format!("ctl-{w:04x}-{bname}"), control_wire(w, exact as u16, [1, 2, 3, 4], body)));
        }
        if bi < 40 || bi % 7 == 0 || bi + 3 >= bodies.len() {
            for (lname, len) in [("len0", 0usize), ("len11", 11), ("len12", 12), ("len-1", exact.saturating_sub(1)), ("len+1", exact + 1), ("len65535", 65535)] {
                out.push((format!("ctl-{lname}-{bname}"), control_wire(W_CONTROL, len as u16, [1, 2, 3, 4], body)));
            }
            for trail in [1usize, 6, 20] {
                let mut b = control_wire(W_CONTROL, exact as u16, [0xffff, 0, 0x8000, 0x7fff], body);
                b.extend(rec(9, &[0, 1]).iter().cycle().take(trail));
                out.push((format!("ctl-trail{trail}-{bname}"), b));
            }
        }
    }
    // truncated control headers
    let full = control_ok(&rec(0, &[0, 1]));
    for n in 0..full.len() {
        out.push((format!("ctl-prefix{n}"), full[..n].to_vec()));
    }
    for d in data_cases() {
        out.push((d.name, d.bytes));
    }
    // truncated data headers
    for bits in 0..16u8 {
        let w = data_word(bits & 1 != 0, bits & 2 != 0, bits & 4 != 0, bits & 8 != 0, 0);
        let mut b = w.to_be_bytes().to_vec();
        b.extend([0, 14, 0, 1, 0, 2, 0, 3, 0, 4, 0, 0, 0x55, 0x66]);
        for n in 0..b.len() {
            out.push((format!("data-{w:04x}-prefix{n}"), b[..n].to_vec()));
        }
    }
    out
}

/// AVP lists on the wire: every kind with every payload variant, header variants, lists of up to `k` pieces
pub fn avp_list_corpus(k: usize) -> Vec<(String, Vec<u8>)> {
    let mut out: Vec<(String, Vec<u8>)> = vec![];
    for kind in wire_kinds() {
        for (i, p) in payloads_of(kind, true).iter().enumerate() {
            out.push((format!("k{kind}-p{i}-len{}", p.len()), rec(kind as u16, p)));
        }
    }
    out.extend(header_variant_records());
    let ps = pieces();
    for l in piece_lists(k, ps.len()) {
        out.push(join_pieces(&ps, &l));
    }
    // leftovers shorter than a header
    for n in 1..6 {
        out.push((format!("short{n}"), pat(n, n)));
        let mut b = rec(9, &[0, 1]);
        b.extend(pat(n, n));
        out.push((format!("rec+short{n}"), b));
    }
    out
}
/// control messages `[Message Type, one record]` for every kind and payload variant
pub fn control_single_avp_corpus() -> Vec<(String, Vec<u8>)> {
    let mut out = vec![];
    for kind in wire_kinds() {
        for (i, p) in payloads_of(kind, false).iter().enumerate() {
            let mut body = rec(0, &[0, 1]);
            body.extend(rec(kind as u16, p));
            out.push((format!("ctl-mt+k{kind}-p{i}-len{}", p.len()), control_ok(&body)));
        }
    }
    for (name, r) in header_variant_records() {
        let mut body = rec(0, &[0, 1]);
        body.extend(r);
        out.push((format!("ctl-mt+{name}"), control_ok(&body)));
    }
    out
}
/// data messages whose offset size is close to the 16-bit maximum, with that many pad octets really present; with a
/// Length field both a small Length (rejected: it does not cover the pad) and the exact total where that fits 16 bits
pub fn large_offset_datas() -> Vec<(String, Vec<u8>)> {
    let mut large: Vec<(String, Vec<u8>)> = vec![];
    // flag word in the crate's numbering: T = 0x0100, L = 0x0200, S = 0x1000, O = 0x4000, version nibble 0x0020
    for (wname, word) in [("lo", 0x4220u16), ("lso", 0x5220), ("o", 0x4020), ("so", 0x5020)] {
        for off in [65500u16, 65522, 65526, 65530, 65535] {
            for length in [100u16, 65535] {
                let mut b = word.to_be_bytes().to_vec();
                if word & 0x0200 != 0 {
                    b.extend(length.to_be_bytes());
                }
                b.extend([0, 1, 0, 2]);
                if word & 0x1000 != 0 {
                    b.extend([0, 3, 0, 4]);
                }
                b.extend(off.to_be_bytes());
                b.extend(std::iter::repeat(0u8).take(off as usize));
                b.extend(pat(200, 7));
                large.push((format!("data-{wname}-off{off}-len{length}"), b));
                if word & 0x0200 == 0 {
                    break;
                }
            }
        }
    }
    large
}
/// deterministic single-site mutations of well-formed wire forms (bit flips, extreme octets, truncations, a length field off
/// by one): inputs one edit away from the structured corpus
pub fn mutated_corpus() -> Vec<(String, Vec<u8>)> {
    let mut out: Vec<(String, Vec<u8>)> = vec![];
    let base: Vec<(String, Vec<u8>)> = message_corpus().into_iter().filter(|(_, b)| b.len() >= 6 && b.len() <= 160).step_by(7).collect();
    for (name, b) in base {
        let n = b.len();
        let mut sites: Vec<usize> = (0..n.min(20)).collect();
        sites.extend([n / 2, n - 2, n - 1]);
        sites.sort();
        sites.dedup();
        for &p in &sites {
            for (mname, f) in [("x01", 0x01u8), ("x02", 0x02), ("x40", 0x40), ("x80", 0x80)] {
                let mut m = b.clone();
                m[p] ^= f;
                out.push((format!("mut-{name}-{p}{mname}"), m));
            }
            for v in [0u8, 0xff] {
                if b[p] != v {
                    let mut m = b.clone();
                    m[p] = v;
                    out.push((format!("mut-{name}-{p}set{v:02x}"), m));
                }
            }
        }
        for cut in [1usize, 2, 5] {
            if n > cut {
                out.push((format!("mut-{name}-cut{cut}"), b[..n - cut].to_vec()));
            }
        }
        for ins in [n / 2, n] {
            let mut m = b.clone();
            m.insert(ins, 0x5a);
            out.push((format!("mut-{name}-ins{ins}"), m));
        }
    }
    out
}
/// deterministic pseudo-random octet strings
pub fn noise(count: usize, max_len: usize) -> Vec<Vec<u8>> {
    let mut x: u64 = 0x9e3779b97f4a7c15;
    let mut next = move || {
        x ^= x << 13;
        x ^= x >> 7;
        x ^= x << 17;
        x
    };
    (0..count)
        .map(|i| {
            let n = (next() as usize) % (max_len + 1);
            let mut v: Vec<u8> = (0..n).map(|_| (next() >> 24) as u8).collect();
            // half of them look like control messages
            if i % 2 == 0 && n >= 4 {
                v[0] = 0x13;
                v[1] = 0x20;
                v[2] = 0;
                v[3] = n as u8;
            }
            v
        })
        .collect()
}
