//! Text forms used on the command line: octet strings, validation options, AVP and message descriptions.
//!
//! octets   : hex digits; `+` joins segments; a segment `XXxN` is octet XX repeated N times; `-` is empty
//! options  : subset of the letters r (reserved) v (version) u (unused), `none`, or `default` (Message::try_read)
//! AVP      : `kind:h:n:i0.i1...:b0:b1`  (h = 0/1 hidden flag, trailing zero ints and empty b's may be omitted)
//! message  : `C@tunnel.session.ns.nr@avp,avp,...`   or   `D@p@length|-@tunnel.session@ns.nr|-@offset|-@octets`
#![allow(dead_code)]

use crate::reference::{AvpV, CtlV, DataV, MsgV};
use rl2tp::{ValidateReserved, ValidateUnused, ValidateVersion, ValidationOptions};

pub fn unhex(s: &str) -> Vec<u8> {
    let mut out = vec![];
    for seg in s.split('+') {
        let seg = seg.trim();
        if seg.is_empty() || seg == "-" {
            continue;
        }
        if let Some((b, n)) = seg.split_once('x') {
            let b = u8::from_str_radix(b, 16).expect("bad octet in run");
            let n: usize = n.parse().expect("bad run length");
            out.extend(std::iter::repeat(b).take(n));
        } else {
            let d: Vec<u8> = seg.bytes().filter(|c| c.is_ascii_hexdigit()).collect();
            for p in d.chunks(2) {
                out.push(u8::from_str_radix(std::str::from_utf8(p).unwrap(), 16).expect("bad hex"));
            }
        }
    }
    out
}
pub fn hex(b: &[u8]) -> String {
    b.iter().map(|x| format!("{x:02x}")).collect()
}
/// compact form: runs of 12 or more equal octets are written `XXxN`
pub fn hexz(b: &[u8]) -> String {
    if b.is_empty() {
        return "-".into();
    }
    let mut segs: Vec<String> = vec![];
    let mut lit = String::new();
    let mut i = 0;
    while i < b.len() {
        let mut j = i;
        while j < b.len() && b[j] == b[i] {
            j += 1;
        }
        if j - i >= 12 {
            if !lit.is_empty() {
                segs.push(std::mem::take(&mut lit));
            }
            segs.push(format!("{:02x}x{}", b[i], j - i));
        } else {
            for k in i..j {
                lit.push_str(&format!("{:02x}", b[k]));
            }
        }
        i = j;
    }
    if !lit.is_empty() {
        segs.push(lit);
    }
    segs.join("+")
}
/// for human-readable lines: at most `max` octets shown
pub fn hex_short(b: &[u8], max: usize) -> String {
    let z = hexz(b);
    if z.len() <= 2 * max {
        format!("{z} ({} octets)", b.len())
    } else {
        format!("{}.. ({} octets)", &z[..2 * max], b.len())
    }
}

/// validation option set; `None` = the default entry point `Message::try_read`
#[derive(Clone, Copy, Debug, PartialEq, Eq)]
pub struct Opts {
    pub r: bool,
    pub v: bool,
    pub u: bool,
}
pub type Entry = Option<Opts>;
pub const STRICT: Opts = Opts { r: true, v: true, u: true };
pub const NONE: Opts = Opts { r: false, v: false, u: false };
pub fn all_opts() -> Vec<Opts> {
    let mut v = vec![];
    for k in 0..8 {
        v.push(Opts { r: k & 1 != 0, v: k & 2 != 0, u: k & 4 != 0 });
    }
    v
}
impl Opts {
    pub fn real(&self) -> ValidationOptions {
        ValidationOptions {
            reserved: if self.r { ValidateReserved::Yes } else { ValidateReserved::No },
            version: if self.v { ValidateVersion::Yes } else { ValidateVersion::No },
            unused: if self.u { ValidateUnused::Yes } else { ValidateUnused::No },
        }
    }
    pub fn text(&self) -> String {
        let mut s = String::new();
        if self.r {
            s.push('r');
        }
        if self.v {
            s.push('v');
        }
        if self.u {
            s.push('u');
        }
        if s.is_empty() {
            s.push_str("none");
        }
        s
    }
    /// pointwise weaker-or-equal
    pub fn le(&self, o: &Opts) -> bool {
        (!self.r || o.r) && (!self.v || o.v) && (!self.u || o.u)
    }
}
pub fn entry_text(e: &Entry) -> String {
    match e {
        None => "default".into(),
        Some(o) => o.text(),
    }
}
pub fn parse_entry(s: &str) -> Entry {
    if s == "default" {
        None
    } else if s == "none" {
        Some(NONE)
    } else {
        Some(Opts { r: s.contains('r'), v: s.contains('v'), u: s.contains('u') })
    }
}

// ---- AVP descriptions --------------------------------------------------------------------------------------
pub fn avp_desc(v: &AvpV) -> String {
    let mut ints: Vec<u64> = v.ints().to_vec();
    while ints.len() > 1 && *ints.last().unwrap() == 0 {
        ints.pop();
    }
    let ints: Vec<String> = ints.iter().map(|x| x.to_string()).collect();
    let mut s = format!("{}:{}:{}:{}", v.kind, v.hidden as u8, v.n, ints.join("."));
    if !v.b0.is_empty() || !v.b1.is_empty() {
        s.push(':');
        s.push_str(&hexz(&v.b0));
    }
    if !v.b1.is_empty() {
        s.push(':');
        s.push_str(&hexz(&v.b1));
    }
    s
}
pub fn parse_avp(s: &str) -> AvpV {
    let f: Vec<&str> = s.split(':').collect();
    assert!(f.len() >= 3, "AVP description: kind:h:n[:ints[:b0[:b1]]]");
    let mut v = AvpV::new(f[0].parse().expect("kind"));
    v.hidden = f[1] == "1";
    v.n = f[2].parse().expect("n");
    if f.len() > 3 && !f[3].is_empty() {
        let ints: Vec<u64> = f[3].split('.').map(|x| x.parse().expect("int slot")).collect();
        v.set_ints(&ints);
    }
    if f.len() > 4 {
        v.b0 = unhex(f[4]);
    }
    if f.len() > 5 {
        v.b1 = unhex(f[5]);
    }
    v
}

// ---- message descriptions ----------------------------------------------------------------------------------
pub fn msg_desc(m: &MsgV) -> String {
    match m {
        MsgV::Control(c) => {
            let avps: Vec<String> = c.avps.iter().map(avp_desc).collect();
            format!("C@{}.{}.{}.{}@{}", c.tunnel, c.session, c.ns, c.nr, avps.join(","))
        }
        MsgV::Data(d) => format!(
            "D@{}@{}@{}.{}@{}@{}@{}",
            d.prio as u8,
            d.length.map(|l| l.to_string()).unwrap_or("-".into()),
            d.tunnel,
            d.session,
            d.ns_nr.map(|p| format!("{}.{}", p.0, p.1)).unwrap_or("-".into()),
            d.offset.map(|l| l.to_string()).unwrap_or("-".into()),
            hexz(&d.data)
        ),
    }
}
fn pair(s: &str) -> (i64, i64) {
    let (a, b) = s.split_once('.').expect("a.b");
    (a.parse().expect("number"), b.parse().expect("number"))
}
pub fn parse_msg(s: &str) -> MsgV {
    let f: Vec<&str> = s.split('@').collect();
    match f[0] {
        "C" => {
            let h: Vec<i64> = f[1].split('.').map(|x| x.parse().expect("header field")).collect();
            let avps = if f.len() > 2 && !f[2].is_empty() { f[2].split(',').map(parse_avp).collect() } else { vec![] };
            MsgV::Control(CtlV { length: 0, tunnel: h[0], session: h[1], ns: h[2], nr: h[3], avps })
        }
        "D" => {
            let (tunnel, session) = pair(f[3]);
            MsgV::Data(DataV {
                prio: f[1] == "1",
                length: if f[2] == "-" { None } else { Some(f[2].parse().expect("length")) },
                tunnel,
                session,
                ns_nr: if f[4] == "-" { None } else { Some(pair(f[4])) },
                offset: if f[5] == "-" { None } else { Some(f[5].parse().expect("offset")) },
                data: unhex(f.get(6).copied().unwrap_or("-")),
            })
        }
        _ => panic!("message description starts with C@ or D@"),
    }
}

/// one line, bounded length (for expected:/actual: lines)
pub fn clip(s: &str, max: usize) -> String {
    let s: String = s.chars().map(|c| if c == '\n' || c == '\t' || c == '\r' { ' ' } else { c }).collect();
    if s.chars().count() <= max {
        s
    } else {
        let head: String = s.chars().take(max).collect();
        format!("{head}.. [{} chars]", s.chars().count())
    }
}
