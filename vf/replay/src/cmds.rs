//! The replay subcommands (run in the child process).  Each prints what the REAL crate does with one
//! concrete input and, where a specification value exists, the reference value next to it.
use crate::ops::*;
use crate::reference as rf;
use crate::util::*;
use rl2tp::avp::types::{Hidden, RandomVector};
use rl2tp::avp::AVP;
use rl2tp::common::{Reader, SliceReader, VecWriter};
use rl2tp::Message;

pub const USAGE: &str = "\
commands (octets: hex, `+` joins, `XXxN` = octet repeated, `-` = empty; opts: [rvu]*|none|default):
  decode-message <octets> <opts>             decode one message (SliceReader)
  decode-avps <octets>                       AVP::try_read_greedy
  decode-type <kind> <octets>                the kind's own T::try_read on a payload
  decode-seq <octets> <opts>                 decode messages one after another until the reader is empty
  decode-suffix <octets b> <octets s> <opts> decode b and b++s, compare value and octets left
  decode-avps-concat <octets>...             decode each record alone and their concatenation
  decode-threads <octets> <opts> <n>         decode the same input on n threads, compare
  options-matrix <octets>                    decode under all 8 option sets and the default entry point
  encode-decode-message <octets> <opts>      decode, re-encode, decode strictly, re-encode again
  encode-avps <prefix octets> <avp>...       AVP::write of each value into one writer (avp = kind:h:n:ints:b0:b1)
  encode-messages <prefix octets> <msg>...   Message::write of each message into one writer
                                             (msg = C@t.s.ns.nr@avp,avp..  |  D@p@len|-@t.s@ns.nr|-@off|-@octets)
  hide <avp> <secret> <rv> <lp> <ap>         hide, encode/decode the hidden AVP, reveal
  reveal <type> <value> <secret> <rv>        reveal a hidden value
  alt-reader message|avps|type:<k> <octets> [opts]   decode through the second conforming Reader and through SliceReader
  reader-ops <octets> <op,op,..>             SliceReader ops: u8 u16 u32 u64 b<n> s<n> sub<n> len empty
  writer-ops <op,op,..>                      VecWriter ops: w8:<n> w16:<n> w32:<n> w64:<n> b:<octets> at:<off>:<octets>
  slice-bytes <octets> <n>                   SliceReader::bytes(n)
  bitmask <Kind> <bool> <bool>               constructor -> accessors of a bitmask AVP
  bitmask-raw <Kind> <hex word>              decode a 32-bit word, accessors, re-encode
  enum-code <field> <x>                      field: message-type error-type proxy-authen-type stop-ccn cdn attribute-type result-code
  error-string <Variant> <value>             DecodeError::<Variant>(value).to_string()
  search <C01..C20>                          bounded witness search of one property";

fn guarded<F: FnOnce() -> String>(f: F) -> String {
    silence_panics();
    match catch(f) {
        Ok(s) => s,
        Err(msg) => format!("PANIC: {msg}"),
    }
}

fn rv4(b: &[u8]) -> RandomVector {
    let mut v = [0u8; 4];
    for (i, x) in b.iter().take(4).enumerate() {
        v[i] = *x;
    }
    RandomVector { value: v }
}
fn ap16(b: &[u8]) -> [u8; 16] {
    let mut v = [0u8; 16];
    for (i, x) in b.iter().take(16).enumerate() {
        v[i] = *x;
    }
    v
}

pub fn child(args: &[String]) -> String {
    let arg = |i: usize| -> &str { args.get(i).map(|s| s.as_str()).unwrap_or_else(|| panic!("missing argument {i}\n{USAGE}")) };
    match args[0].as_str() {
        "decode-message" => {
            let data = unhex(arg(1));
            let e = parse_entry(arg(2));
            guarded(|| {
                let (res, rem) = dec_msg(&data, &e);
                let spec = e.map(|o| rf::message(&data, o.r, o.v, o.u)).unwrap_or_else(|| rf::message(&data, false, true, false));
                format!(
                    "RESULT: {res:?}\nREMAINING: {rem}\nREFERENCE: {}",
                    match spec {
                        Some((m, rest)) => format!("accepts, {} octet(s) left, value {m:?}", rest),
                        None => "rejects".into(),
                    }
                )
            })
        }
        "decode-avps" => {
            let data = unhex(arg(1));
            guarded(|| {
                let (res, rem) = dec_avps(&data);
                format!("RESULT: {res:?}\nREMAINING: {rem}\nREFERENCE: {:?}", rf::avp_list(&data))
            })
        }
        "decode-type" => {
            let kind: i64 = arg(1).parse().unwrap();
            let data = unhex(arg(2));
            guarded(|| match dec_type_slice(kind, &data) {
                None => format!("kind {kind} has no payload decoder"),
                Some((res, rem)) => format!("RESULT: {res:?}\nREMAINING: {rem}\nREFERENCE: {:?}", rf::decode_avp(kind, &data)),
            })
        }
        "decode-seq" => {
            let data = unhex(arg(1));
            let e = parse_entry(arg(2));
            guarded(|| {
                let mut out = String::new();
                let mut r = SliceReader::from(&data);
                let mut k = 0;
                while !r.is_empty() && k < 64 {
                    let res = match &e {
                        None => Message::<&[u8]>::try_read(&mut r),
                        Some(o) => Message::<&[u8]>::try_read_validate(&mut r, o.real()),
                    };
                    out.push_str(&format!("MESSAGE {k}: {res:?}\nREMAINING: {}\n", r.len()));
                    if res.is_err() {
                        break;
                    }
                    k += 1;
                }
                out.push_str(&format!("DECODED: {k}"));
                out
            })
        }
        "decode-suffix" => {
            let b = unhex(arg(1));
            let s = unhex(arg(2));
            let e = parse_entry(arg(3));
            guarded(|| {
                let mut bs = b.clone();
                bs.extend(&s);
                let (r1, rem1) = dec_msg(&b, &e);
                let (r2, rem2) = dec_msg(&bs, &e);
                format!(
                    "ALONE: {r1:?}\nREMAINING: {rem1}\nWITH SUFFIX ({} octets): {r2:?}\nREMAINING: {rem2}\nSAME VALUE: {}",
                    s.len(),
                    r1 == r2
                )
            })
        }
        "decode-avps-concat" => {
            let parts: Vec<Vec<u8>> = args[1..].iter().map(|a| unhex(a)).collect();
            guarded(|| {
                let mut out = String::new();
                let mut all = vec![];
                let mut cat = vec![];
                for (i, p) in parts.iter().enumerate() {
                    let (r, rem) = dec_avps(p);
                    out.push_str(&format!("RECORD {i}: {r:?} REMAINING: {rem}\n"));
                    all.extend(r);
                    cat.extend(p);
                }
                let (r, rem) = dec_avps(&cat);
                out.push_str(&format!("CONCATENATION: {r:?} REMAINING: {rem}\nSAME: {}", r == all));
                out
            })
        }
        "decode-threads" => {
            let data = unhex(arg(1));
            let e = parse_entry(arg(2));
            let n: usize = arg(3).parse().unwrap();
            guarded(|| {
                let base = format!("{:?}", dec_msg(&data, &e));
                let hs: Vec<_> = (0..n)
                    .map(|_| {
                        let d = data.clone();
                        std::thread::spawn(move || {
                            silence_panics();
                            (0..50).map(|_| catch(|| format!("{:?}", dec_msg(&d, &e))).unwrap_or_else(|p| format!("PANIC: {p}"))).collect::<Vec<_>>()
                        })
                    })
                    .collect();
                let mut diff = 0;
                for h in hs {
                    for s in h.join().unwrap() {
                        if s != base {
                            diff += 1;
                        }
                    }
                }
                format!("RESULT: {base}\nDIFFERING RESULTS ON {n} THREADS: {diff}")
            })
        }
        "options-matrix" => {
            let data = unhex(arg(1));
            guarded(|| {
                let mut out = String::new();
                for o in all_opts() {
                    let (r, rem) = match catch(|| dec_msg_o(&data, o)) {
                        Ok(x) => (format!("{:?}", x.0), x.1.to_string()),
                        Err(p) => (format!("PANIC: {p}"), "?".into()),
                    };
                    out.push_str(&format!("{:>7}: {r} REMAINING: {rem}\n", o.text()));
                }
                let (r, rem) = dec_msg(&data, &None);
                out.push_str(&format!("default: {r:?} REMAINING: {rem}"));
                out
            })
        }
        "encode-decode-message" => {
            // decode `hex` (must be accepted), re-encode, decode strictly again, re-encode again
            let data = unhex(arg(1));
            let e = parse_entry(arg(2));
            guarded(|| {
                let (m, _) = dec_msg(&data, &e);
                match m {
                    Err(e) => format!("RESULT: first decode Err({e:?})"),
                    Ok(m) => {
                        let e1 = enc_msg(&m);
                        let (m2, rem) = dec_msg_o(&e1, STRICT);
                        let again = match &m2 {
                            Ok(m2) => hexz(&enc_msg(m2)),
                            Err(_) => "-".into(),
                        };
                        format!("DECODED: {m:?}\nENCODED: {}\nRESULT: {m2:?}\nREMAINING: {rem}\nENCODED AGAIN: {again}", hexz(&e1))
                    }
                }
            })
        }
        "encode-avps" => {
            let prefix = unhex(arg(1));
            let vs: Vec<rf::AvpV> = args[2..].iter().map(|a| parse_avp(a)).collect();
            guarded(|| {
                let mut out = String::new();
                let mut avps = vec![];
                for (i, v) in vs.iter().enumerate() {
                    match rf::build(v) {
                        None => return format!("AVP {i}: {v:?} cannot be represented by the crate's types"),
                        Some(a) => avps.push(a),
                    }
                }
                for (i, a) in avps.iter().enumerate() {
                    let one = catch(|| enc_avp(a));
                    out.push_str(&format!("AVP {i}: {a:?}\n  get_length: {:?}\n", catch(|| a.get_length())));
                    match &one {
                        Ok(b) => {
                            out.push_str(&format!("  ENCODED ALONE: {}\n", hex_short(b, 80)));
                            out.push_str(&format!("  DECODED BACK: {}\n", clip(&format!("{:?}", catch(|| dec_avps(b))), 600)));
                        }
                        Err(p) => out.push_str(&format!("  ENCODED ALONE: PANIC: {p}\n")),
                    }
                    let v = rf::view(a);
                    out.push_str(&format!("  REFERENCE ({}): {}\n", if rf::avp_fits(&v) { "fits" } else { "oversize: must be refused" }, hex_short(&rf::enc_avp(&v), 80)));
                    if let Ok(b) = &one {
                        out.push_str(&format!("  SAME AS REFERENCE: {}\n", *b == rf::enc_avp(&v)));
                    }
                }
                let mut w = RecWriter::with(&prefix);
                let mut starts = vec![];
                let r = catch(|| {
                    for a in avps.iter() {
                        starts.push(w.data.len());
                        a.write(&mut w);
                    }
                });
                out.push_str(&format!("WRITER AFTER PREFIX {}: {}{}\n", hexz(&prefix), hex_short(&w.data, 120), r.err().map(|p| format!(" PANIC: {p}")).unwrap_or_default()));
                out.push_str(&format!("VALUE STARTS: {starts:?}\nOVERWRITES (offset, octets, buffer length): {:?}\n", w.overwrites));
                let mut vw = writer_with(&prefix);
                let r = catch(|| {
                    for a in avps.iter() {
                        a.write(&mut vw);
                    }
                });
                out.push_str(&format!("VECWRITER: {}{}", hex_short(&vw.data, 120), r.err().map(|p| format!(" PANIC: {p}")).unwrap_or_default()));
                out
            })
        }
        "encode-messages" => {
            let prefix = unhex(arg(1));
            let vs: Vec<rf::MsgV> = args[2..].iter().map(|a| parse_msg(a)).collect();
            guarded(|| {
                let mut out = String::new();
                let mut msgs = vec![];
                for (i, v) in vs.iter().enumerate() {
                    match rf::build_message(v) {
                        None => return format!("MESSAGE {i} cannot be represented by the crate's types"),
                        Some(a) => msgs.push(a),
                    }
                }
                for (i, m) in msgs.iter().enumerate() {
                    out.push_str(&format!("MESSAGE {i}: {}\n", clip(&format!("{m:?}"), 600)));
                    let one = catch(|| enc_msg(m));
                    match &one {
                        Ok(b) => {
                            out.push_str(&format!("  ENCODED ALONE: {}\n", hex_short(b, 120)));
                            let d = catch(|| dec_msg_o(b, STRICT));
                            out.push_str(&format!("  DECODED BACK (rvu): {}\n", clip(&format!("{d:?}"), 600)));
                        }
                        Err(p) => out.push_str(&format!("  ENCODED ALONE: PANIC: {p}\n")),
                    }
                    let r = rf::enc_message(&rf::view_message(m));
                    out.push_str(&format!("  REFERENCE: {}\n", hex_short(&r, 120)));
                    if let Ok(b) = &one {
                        out.push_str(&format!("  SAME AS REFERENCE: {}\n", *b == r));
                    }
                }
                let mut w = RecWriter::with(&prefix);
                let mut starts = vec![];
                let r = catch(|| {
                    for m in msgs.iter() {
                        starts.push(w.data.len());
                        m.write(&mut w);
                    }
                });
                out.push_str(&format!("WRITER AFTER PREFIX {}: {}{}\n", hexz(&prefix), hex_short(&w.data, 160), r.err().map(|p| format!(" PANIC: {p}")).unwrap_or_default()));
                out.push_str(&format!("VALUE STARTS: {starts:?}\nOVERWRITES (offset, octets, buffer length): {:?}\n", w.overwrites));
                let mut vw = writer_with(&prefix);
                let r = catch(|| {
                    for m in msgs.iter() {
                        m.write(&mut vw);
                    }
                });
                out.push_str(&format!("VECWRITER: {}{}", hex_short(&vw.data, 160), r.err().map(|p| format!(" PANIC: {p}")).unwrap_or_default()));
                out
            })
        }
        "hide" => {
            let v = parse_avp(arg(1));
            let secret = unhex(arg(2));
            let rv = rv4(&unhex(arg(3)));
            let lp = unhex(arg(4));
            let ap = ap16(&unhex(arg(5)));
            guarded(|| {
                let a = match rf::build(&v) {
                    None => return "the AVP cannot be represented by the crate's types".to_string(),
                    Some(a) => a,
                };
                let mut out = format!("AVP: {a:?}\n");
                let h = match catch(|| a.clone().hide(&secret, &rv, &lp, &ap)) {
                    Err(p) => return format!("{out}HIDE: PANIC: {p}"),
                    Ok(h) => h,
                };
                out.push_str(&format!("HIDDEN: {}\n", clip(&format!("{h:?}"), 400)));
                if !v.hidden {
                    let want = rf::hide_value(v.kind, &rf::payload_enc(&v), &secret, &rv.value, &lp, &ap);
                    out.push_str(&format!("REFERENCE VALUE (RFC 2661 4.3): {}\n", hex_short(&want, 200)));
                    if let AVP::Hidden(hh) = &h {
                        out.push_str(&format!("HIDDEN VALUE:                   {}\nSAME AS REFERENCE: {}\n", hex_short(&hh.value, 200), hh.value == want));
                    }
                }
                let wire = catch(|| enc_avp(&h));
                out.push_str(&format!("ENCODED HIDDEN AVP: {}\n", wire.as_ref().map(|b| hex_short(b, 200)).unwrap_or_else(|p| format!("PANIC: {p}"))));
                out.push_str(&format!("REVEAL DIRECT: {}\n", clip(&catch(|| format!("{:?}", h.clone().reveal(&secret, &rv))).unwrap_or_else(|p| format!("PANIC: {p}")), 600)));
                if let Ok(wire) = wire {
                    let (l, _) = dec_avps(&wire);
                    out.push_str(&format!("DECODED HIDDEN AVP: {}\n", clip(&format!("{l:?}"), 400)));
                    if let Some(Ok(h2)) = l.into_iter().next() {
                        out.push_str(&format!("REVEAL AFTER ENCODE/DECODE: {}\n", clip(&catch(|| format!("{:?}", h2.reveal(&secret, &rv))).unwrap_or_else(|p| format!("PANIC: {p}")), 600)));
                    }
                }
                out.push_str(&format!("ORIGINAL: {}", clip(&format!("{a:?}"), 600)));
                out
            })
        }
        "reveal" => {
            let t: u16 = arg(1).parse().unwrap();
            let value = unhex(arg(2));
            let secret = unhex(arg(3));
            let rv = rv4(&unhex(arg(4)));
            guarded(|| {
                let h = AVP::Hidden(Hidden { attribute_type: t, value: value.clone() });
                format!("RESULT: {:?}\nREFERENCE: {:?}", h.reveal(&secret, &rv), rf::reveal(t as i64, &value, &secret, &rv.value))
            })
        }
        "alt-reader" => {
            let mode = arg(1).to_string();
            let data = unhex(arg(2));
            let e = parse_entry(args.get(3).map(|s| s.as_str()).unwrap_or("none"));
            guarded(|| {
                let mut out = String::new();
                for rot in [0usize, 3] {
                    let (alt, slice) = if mode == "message" {
                        (catch(|| format!("{:?}", alt_dec_msg(&data, &e, rot))), catch(|| format!("{:?}", dec_msg(&data, &e))))
                    } else if mode == "avps" {
                        (catch(|| format!("{:?}", alt_dec_avps(&data, rot))), catch(|| format!("{:?}", dec_avps(&data))))
                    } else if let Some(k) = mode.strip_prefix("type:") {
                        let k: i64 = k.parse().unwrap();
                        (catch(|| format!("{:?}", dec_type_alt(k, &data, rot))), catch(|| format!("{:?}", dec_type_slice(k, &data))))
                    } else {
                        return format!("unknown mode {mode}");
                    };
                    let f = |r: &Result<String, String>| r.clone().unwrap_or_else(|p| format!("PANIC: {p}"));
                    out.push_str(&format!("SECOND READER (rotation {rot}): {}\nSLICE READER: {}\nSAME: {}\n", f(&alt), f(&slice), alt.is_ok() && alt == slice));
                }
                out.trim_end().to_string()
            })
        }
        "reader-ops" => {
            let data = unhex(arg(1));
            let ops = arg(2).to_string();
            guarded(|| crate::search::reader_ops_trace(&data, &ops).join("\n"))
        }
        "writer-ops" => {
            let ops = arg(1).to_string();
            guarded(|| crate::search::writer_ops_trace(&ops).join("\n"))
        }
        "slice-bytes" => {
            let data = unhex(arg(1));
            let n: usize = arg(2).parse().unwrap();
            guarded(|| {
                let mut r = SliceReader::from(&data);
                let res = r.bytes(n).map(hex);
                format!("RESULT: {res:?}\nREMAINING: {}", r.len())
            })
        }
        "bitmask" => {
            let x = arg(2) == "true";
            let y = arg(3) == "true";
            guarded(|| match mask_new_accessors(arg(1), x, y) {
                None => format!("unknown kind {}", arg(1)),
                Some((a, b, v)) => format!("RESULT: {}::new({x}, {y}) -> accessor of first parameter = {a}, accessor of second parameter = {b}; value {v:?}", arg(1)),
            })
        }
        "bitmask-raw" => {
            let w = u32::from_str_radix(arg(2), 16).unwrap();
            guarded(|| match mask_from_word(arg(1), w) {
                None => format!("unknown kind {}", arg(1)),
                Some(Err(e)) => format!("RESULT: Err({e:?})"),
                Some(Ok((b6, b7, v))) => {
                    let enc = enc_avp(&v);
                    format!(
                        "RESULT: word {w:08x} -> accessor of bit 6 = {b6} (bit is {}), accessor of bit 7 = {b7} (bit is {}); value {v:?}\nENCODED: {}",
                        w & 0x40 != 0,
                        w & 0x80 != 0,
                        hex(&enc)
                    )
                }
            })
        }
        "enum-code" => {
            let x: u16 = arg(2).parse().unwrap();
            let field = arg(1).to_string();
            guarded(|| crate::search::enum_code_report(&field, x))
        }
        "error-string" => {
            let x: u16 = arg(2).parse().unwrap();
            guarded(|| match error_by_name(arg(1), x) {
                None => format!("unknown variant {}", arg(1)),
                Some((e, _, _)) => format!("RESULT: {:?}\nDEBUG: {e:?}\nREFERENCE NAME OF ATTRIBUTE {x}: {:?}", e.to_string(), rf::kind_name(x as i64)),
            })
        }
        c => format!("unknown command {c}\n{USAGE}"),
    }
}

#[allow(dead_code)]
fn _unused(_: &mut VecWriter) {}
