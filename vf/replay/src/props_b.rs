//! Witness searches C11 .. C20, and the traces / reports shared with the replay subcommands.
use crate::corpus::*;
use crate::ensure;
use crate::ops::*;
use crate::reference as rf;
use crate::reference::{AvpV, RecV};
use crate::search::{fail, CaseResult, Ctx};
use crate::util::*;
use rl2tp::avp::types as t;
use rl2tp::avp::types::RandomVector;
use rl2tp::avp::AVP;
use rl2tp::common::{DecodeError, Reader, SliceReader, VecWriter, Writer};
use std::collections::HashMap;

fn show<T: std::fmt::Debug>(x: &T) -> String {
    clip(&format!("{x:?}"), 700)
}

// =====================================================================================================
// hide / reveal inputs
#[derive(Clone)]
pub struct HideCase {
    pub v: AvpV,
    pub secret: Vec<u8>,
    pub rv: [u8; 4],
    pub lp: Vec<u8>,
    pub ap: [u8; 16],
}
impl HideCase {
    pub fn replay(&self) -> String {
        format!("hide {} {} {} {} {}", avp_desc(&self.v), hexz(&self.secret), hexz(&self.rv), hexz(&self.lp), hexz(&self.ap))
    }
    pub fn name(&self) -> String {
        format!("k{}-p{}-s{}-lp{}", self.v.kind, rf::payload_enc(&self.v).len(), self.secret.len(), self.lp.len())
    }
    pub fn hide(&self) -> (AVP, AVP) {
        let a = rf::build(&self.v).expect("representable");
        let h = a.clone().hide(&self.secret, &RandomVector { value: self.rv }, &self.lp, &self.ap);
        (a, h)
    }
}
pub fn secrets() -> Vec<Vec<u8>> {
    vec![vec![], vec![0x73], b"hello".to_vec(), pat(16, 2), pat(17, 3)]
}
fn ap_of(seed: usize) -> [u8; 16] {
    let mut a = [0u8; 16];
    for (i, x) in pat(16, seed + 40).iter().enumerate() {
        a[i] = *x;
    }
    a
}
/// the statement's domain: non-hidden, encodable, 2 + |payload| + |lp| <= 1008
pub fn hide_cases() -> Vec<HideCase> {
    let mut out = vec![];
    let all = encodable_plain_avps(true);
    let rvs: [[u8; 4]; 3] = [[0, 0, 0, 0], [0xde, 0xad, 0xbe, 0xef], [0xff, 0xff, 0xff, 0xff]];
    for (i, v) in all.iter().enumerate() {
        let pl = rf::payload_enc(v).len();
        for (si, lpn) in [(0usize, 0usize), (2, 3), (4, 16)] {
            if 2 + pl + lpn <= 1008 {
                out.push(HideCase { v: v.clone(), secret: secrets()[si].clone(), rv: rvs[(i + si) % 3], lp: pat(lpn, i), ap: ap_of(i) });
            }
        }
    }
    // one small value of every kind: every secret length, every length padding 0..=40
    for k in rf::assigned_kinds() {
        let v = sample_value(k).unwrap();
        for (si, s) in secrets().into_iter().enumerate() {
            for lpn in 0..=40usize {
                out.push(HideCase { v: v.clone(), secret: s.clone(), rv: rvs[(si + lpn) % 3], lp: pat(lpn, lpn + si), ap: ap_of(lpn) });
            }
        }
    }
    // the largest values: 2 + |payload| + |lp| = 1008 exactly, and one block less
    for (pl, lpn) in [(1006usize, 0usize), (990, 16), (1000, 6), (975, 17), (1, 1005), (1005, 0)] {
        for s in [vec![], b"hello".to_vec(), pat(17, 1)] {
            out.push(HideCase { v: var_value(7, pl), secret: s, rv: rvs[1], lp: pat(lpn, 1), ap: ap_of(pl) });
        }
    }
    out
}

pub struct RevealCase {
    pub name: String,
    pub t: u16,
    pub value: Vec<u8>,
    pub secret: Vec<u8>,
    pub rv: [u8; 4],
}
impl RevealCase {
    pub fn replay(&self) -> String {
        format!("reveal {} {} {} {}", self.t, hexz(&self.value), hexz(&self.secret), hexz(&self.rv))
    }
    pub fn run(&self) -> Result<AVP, DecodeError> {
        AVP::Hidden(t::Hidden { attribute_type: self.t, value: self.value.clone() }).reveal(&self.secret, &RandomVector { value: self.rv })
    }
}
/// hidden values as an attacker or a peer with another secret can send them; ciphertexts are crafted with
/// MD5 so that they decrypt to chosen plaintexts
pub fn reveal_cases() -> Vec<RevealCase> {
    let mut out = vec![];
    let rv = [0x10u8, 0x20, 0x30, 0x40];
    for t in [0u16, 7, 9, 65535] {
        for n in [0usize, 1, 2, 15, 17, 31, 33, 47] {
            for s in [vec![], b"hello".to_vec()] {
                out.push(RevealCase { name: format!("t{t}-raw{n}-s{}", s.len()), t, value: pat(n, n), secret: s, rv });
            }
        }
        for n in [16usize, 32, 48, 1024] {
            out.push(RevealCase { name: format!("t{t}-noise{n}"), t, value: pat(n, n + t as usize), secret: b"hello".to_vec(), rv });
        }
    }
    let deep: [u16; 12] = [0, 1, 7, 8, 9, 12, 13, 20, 34, 39, 40, 65535];
    let mut all_types: Vec<u16> = (0u16..=41).collect();
    all_types.push(65535);
    for t in all_types {
        // every attribute type reaches its per-type decoder through reveal; the twelve "deep" ones get all secrets
        // and up to five blocks, the others one secret and two blocks but every payload length 0..=27
        let is_deep = deep.contains(&t);
        let secs: Vec<Vec<u8>> = if is_deep { secrets() } else { vec![b"hello".to_vec()] };
        for s in secs {
            for blocks in 1..=(if is_deep { 5usize } else { 2usize }) {
                let avail = 16 * blocks - 2;
                let mut totals: Vec<usize> = vec![0, 5, 6, 7, 8, 10, avail + 5, avail + 6, avail + 7, 1023, 1024, 65535];
                totals.extend((6usize..=33).filter(|x| *x <= avail + 6));
                totals.sort();
                totals.dedup();
                for total in totals {
                    let mut p = rf::enc16(total as u64);
                    // payload octets that make sense for several kinds: a valid message type / error code / text
                    let mut body = vec![0u8, 1, 0, 2];
                    body.extend(ascii(avail - 4, total));
                    p.extend(&body[..avail]);
                    let c = rf::encrypt(&p, &rf::enc16(t as u64), &s, &rv);
                    out.push(RevealCase { name: format!("t{t}-s{}-b{blocks}-total{total}", s.len()), t, value: c.clone(), secret: s.clone(), rv });
                    if total == 8 && blocks <= 2 {
                        // a peer with a different secret / random vector
                        out.push(RevealCase { name: format!("t{t}-s{}-b{blocks}-wrong-secret", s.len()), t, value: c.clone(), secret: b"other".to_vec(), rv });
                        out.push(RevealCase { name: format!("t{t}-s{}-b{blocks}-wrong-rv", s.len()), t, value: c, secret: s.clone(), rv: [1, 1, 1, 1] });
                    }
                }
            }
        }
        // every structured payload of this kind (all enumerated codes, truncated and over-long forms, invalid UTF-8, ...)
        // arrives at the per-type decoder through reveal exactly as it would arrive from the wire
        for (pi, pl) in payloads_of(t as i64, false).iter().enumerate().filter(|(_, pl)| pl.len() <= 200) {
            let mut p = rf::enc16(6 + pl.len() as u64);
            p.extend(pl.iter());
            while p.len() % 16 != 0 {
                p.push(0xa5);
            }
            let c = rf::encrypt(&p, &rf::enc16(t as u64), b"hello", &rv);
            out.push(RevealCase { name: format!("t{t}-payload{pi}-len{}", pl.len()), t, value: c, secret: b"hello".to_vec(), rv });
        }
        // 64 blocks: the largest original length fits
        let mut p = rf::enc16(1023);
        p.extend(ascii(1022, 5));
        let c = rf::encrypt(&p, &rf::enc16(t as u64), b"k", &rv);
        out.push(RevealCase { name: format!("t{t}-b64-total1023"), t, value: c, secret: b"k".to_vec(), rv });
    }
    out
}

// =====================================================================================================
// C11  hiding then revealing returns the AVP
pub fn c11(ctx: &mut Ctx) {
    for hc in &hide_cases() {
        ctx.case(&hc.name(), &|| hc.replay(), || {
            let (a, h) = hc.hide();
            let rvv = RandomVector { value: hc.rv };
            let r = h.clone().reveal(&hc.secret, &rvv);
            ensure!(r.as_ref().ok() == Some(&a), format!("reveal(hide(a)) = Ok({})", show(&a)), show(&r));
            let wire = enc_avp(&h);
            let (l, rem) = dec_avps(&wire);
            ensure!(l.len() == 1 && rem == 0 && l[0].as_ref().ok() == Some(&h), format!("decode(encode(hide(a))) = [Ok({})]", show(&h)), format!("{} remaining {rem}", show(&l)));
            let r2 = l.into_iter().next().unwrap().unwrap().reveal(&hc.secret, &rvv);
            ensure!(r2.as_ref().ok() == Some(&a), format!("reveal(decode(encode(hide(a)))) = Ok({})", show(&a)), show(&r2));
            Ok(())
        });
    }
    // hide is the identity on hidden AVPs, reveal on the others
    for (i, v) in encodable_avps(false).iter().enumerate() {
        let hc = HideCase { v: v.clone(), secret: b"hello".to_vec(), rv: [1, 2, 3, 4], lp: pat(i % 5, i), ap: ap_of(i) };
        if v.hidden {
            ctx.case(&format!("hide-hidden-{i}"), &|| hc.replay(), || {
                let (a, h) = hc.hide();
                ensure!(h == a, format!("hide(h) = h = {}", show(&a)), show(&h));
                Ok(())
            });
        } else {
            ctx.case(&format!("reveal-plain-k{}-{i}", v.kind), &|| hc.replay(), || {
                let a = rf::build(v).expect("representable");
                let r = a.clone().reveal(&hc.secret, &RandomVector { value: hc.rv });
                ensure!(r.as_ref().ok() == Some(&a), format!("reveal(a) = Ok(a) = Ok({})", show(&a)), show(&r));
                Ok(())
            });
        }
    }
}

// =====================================================================================================
// C12  hidden values equal the RFC 2661 s4.3 construction
pub fn c12(ctx: &mut Ctx) {
    for hc in &hide_cases() {
        ctx.case(&hc.name(), &|| hc.replay(), || {
            let (_, h) = hc.hide();
            let payload = rf::payload_enc(&hc.v);
            let want = rf::hide_value(hc.v.kind, &payload, &hc.secret, &hc.rv, &hc.lp, &hc.ap);
            let hh = match &h {
                AVP::Hidden(hh) => hh,
                other => return fail("a hidden AVP", show(other)),
            };
            ensure!(hh.attribute_type as i64 == hc.v.kind, format!("attribute type {} in clear", hc.v.kind), hh.attribute_type);
            let blocks = (2 + payload.len() + hc.lp.len() + 15) / 16;
            ensure!(hh.value.len() == 16 * blocks, format!("|value| = 16 * ceil((2 + {} + {}) / 16) = {}", payload.len(), hc.lp.len(), 16 * blocks), hh.value.len());
            ensure!(hh.value == want, hex_short(&want, 80), hex_short(&hh.value, 80));
            // wire form: hidden bit, attribute type in clear, value verbatim
            let wire = enc_avp(&h);
            let mut wwant = vec![(((6 + want.len()) / 256) * 64 + 3) as u8, ((6 + want.len()) % 256) as u8, 0, 0];
            wwant.extend(rf::enc16(hc.v.kind as u64));
            wwant.extend(&want);
            ensure!(wire == wwant, format!("wire form {}", hex_short(&wwant, 60)), hex_short(&wire, 60));
            // depends on nothing but its inputs: alignment padding octets that are not used do not matter
            let used = 16 * blocks - (2 + payload.len() + hc.lp.len());
            let mut ap2 = hc.ap;
            for x in ap2[used..].iter_mut() {
                *x ^= 0xff;
            }
            let a = rf::build(&hc.v).unwrap();
            let h2 = a.clone().hide(&hc.secret, &RandomVector { value: hc.rv }, &hc.lp, &ap2);
            let h3 = a.hide(&hc.secret, &RandomVector { value: hc.rv }, &hc.lp, &hc.ap);
            ensure!(h2 == h && h3 == h, "the same hidden AVP for the same inputs (unused alignment octets changed / repeated call)", format!("{} / {}", show(&h2), show(&h3)));
            Ok(())
        });
    }
    for rc in &reveal_cases() {
        ctx.case(&format!("reveal-{}", rc.name), &|| rc.replay(), || {
            let got = rc.run();
            let want = rf::reveal(rc.t as i64, &rc.value, &rc.secret, &rc.rv);
            ensure!(rf::rec_val(&got, &want), show(&want), show(&got));
            Ok(())
        });
    }
}

// =====================================================================================================
// C13  revealing is total
pub fn c13(ctx: &mut Ctx) {
    for rc in &reveal_cases() {
        ctx.case(&rc.name, &|| rc.replay(), || {
            let got = match catch(|| rc.run()) {
                Ok(r) => r,
                Err(p) => return fail("Ok(avp) or Err(_)", format!("PANIC: {p}")),
            };
            if let Ok(a) = &got {
                let v = rf::view(a);
                ensure!(v.kind == rc.t as i64 && !v.hidden, format!("an AVP of the announced attribute type {}", rc.t), show(a));
            }
            let n = rc.value.len();
            if n == 0 || n % 16 != 0 {
                ensure!(got.is_err(), "Err: empty value or not a multiple of 16 octets", show(&got));
            } else {
                let p = rf::decrypt(&rc.value, &rf::enc16(rc.t as u64), &rc.secret, &rc.rv);
                let total = rf::be16(&p) as usize;
                if total < 6 || total > 1023 || total - 6 > n - 2 {
                    ensure!(got.is_err(), format!("Err: decrypted original length {total} does not fit the {} decrypted value octets", n - 2), show(&got));
                }
            }
            Ok(())
        });
    }
}

// =====================================================================================================
// C14  validation options only restrict; each checks exactly its bits; default = version
pub fn c14(ctx: &mut Ctx) {
    let mut body_avp = vec![0u8, 20, 0, 1, 0, 2, 0, 3, 0, 4];
    body_avp.extend(rec(0, &[0, 1]));
    let bodies: Vec<Vec<u8>> = vec![
        vec![0, 12, 0, 1, 0, 2, 0, 3, 0, 4],                   // control: Length 12, ids
        body_avp,                                              // control with a Message Type AVP
        vec![0, 15, 0, 1, 0, 2, 0, 0, 0, 1, 0xaa, 0xbb, 0xcc], // data: Length 15 fits L, L+S, L+O(0) .. shapes
        vec![0, 17, 0, 0, 0, 1, 0, 2, 0, 1, 0x55, 0x66, 0x77, 0x88, 0x99], // data: L+S+O with offset size 1; without L: O with offset size 0
    ];
    type Owned = (Result<rf::MsgV, Vec<DecodeError>>, usize);
    let own = |r: (MsgRes<&[u8]>, usize)| -> Owned { (r.0.map(|m| rf::view_message(&m)), r.1) };
    let mut base: HashMap<(u16, usize), Owned> = HashMap::new();
    let opts = all_opts();
    for w in 0..=65535u16 {
        let wi = w as u64;
        // the word with every bit that a switched-off check must ignore put to its neutral value
        let mut w0 = (w & !0x00f0) | 0x0020;
        w0 &= !0x2c0f;
        if rf::fw_t(wi) {
            w0 &= !0xc000;
        }
        for (bi, body) in bodies.iter().enumerate() {
            let mut b = w.to_be_bytes().to_vec();
            b.extend(body);
            ctx.case(&format!("word-{w:04x}-body{bi}"), &|| format!("options-matrix {}", hexz(&b)), || {
                let mut b0 = w0.to_be_bytes().to_vec();
                b0.extend(body);
                let basev = base.entry((w0, bi)).or_insert_with(|| own(dec_msg_o(&b0, NONE)));
                let res: Vec<Owned> = opts.iter().map(|o| own(dec_msg_o(&b, *o))).collect();
                // exactly its own bits
                for (o, r) in opts.iter().zip(res.iter()) {
                    let must_reject = (o.v && rf::fw_version(wi) != 2) || (o.r && !rf::fw_reserved_ok(wi)) || (o.u && rf::fw_t(wi) && (rf::fw_p(wi) || rf::fw_o(wi)));
                    if must_reject {
                        ensure!(r.0.is_err(), format!("rejected under {} (version {}, reserved ok {}, control {}, P {}, O {})", o.text(), rf::fw_version(wi), rf::fw_reserved_ok(wi), rf::fw_t(wi), rf::fw_p(wi), rf::fw_o(wi)), show(r));
                    } else {
                        ensure!(r == basev, format!("under {}: the result of word {w0:04x} without checks (bits of disabled checks do not matter): {}", o.text(), show(basev)), show(r));
                    }
                }
                // only restrict
                for (i, oi) in opts.iter().enumerate() {
                    for (j, oj) in opts.iter().enumerate() {
                        if oi.le(oj) {
                            if res[j].0.is_ok() {
                                ensure!(res[i] == res[j], format!("Ok under {} implies the same Ok under the weaker {}", oj.text(), oi.text()), format!("{} vs {}", show(&res[j]), show(&res[i])));
                            }
                            if res[i].0.is_err() {
                                ensure!(res[j].0.is_err(), format!("rejected under {} implies rejected under the stronger {}", oi.text(), oj.text()), show(&res[j]));
                            }
                        }
                    }
                }
                // default entry point = version checking alone
                let d = own(dec_msg(&b, &None));
                let vonly = &res[2];
                ensure!(d == *vonly, format!("try_read = try_read_validate({{version}}) = {}", show(vonly)), show(&d));
                Ok(())
            });
        }
    }
}

// =====================================================================================================
// C15  control messages: all-or-nothing acceptance and a complete, ordered error list
pub fn c15(ctx: &mut Ctx) {
    let ps = pieces();
    let mut bodies: Vec<(String, Vec<u8>)> = piece_lists(4, ps.len()).iter().map(|l| join_pieces(&ps, l)).collect();
    let tail = rec(7, b"ok");
    for kind in wire_kinds() {
        for (i, p) in payloads_of(kind, false).iter().enumerate() {
            let mut b = rec(0, &[0, 1]);
            b.extend(rec(kind as u16, p));
            b.extend(&tail);
            b.extend(rec(9, &[1])); // a second bad record after the one under test
            bodies.push((format!("mt+k{kind}-p{i}+host+short9"), b));
        }
    }
    for (name, r) in header_variant_records() {
        let mut b = rec(0, &[0, 1]);
        b.extend(r);
        b.extend(&tail);
        bodies.push((format!("mt+{name}+host"), b));
    }
    for (name, body) in &bodies {
        let b = control_ok(body);
        for o in [STRICT] {
            ctx.case(name, &|| format!("decode-message {} {}", hexz(&b), o.text()), || {
                let (res, _) = dec_msg_o(&b, o);
                let l = rf::control_list(rf::be16(&b), o.u, &b[2..]).expect("search bug: well-formed control header");
                let bad = rf::recs_errors(&l);
                let first_mt = l.is_empty() || rf::rec_is_message_type(&l[0]);
                match &res {
                    Ok(m) => {
                        ensure!(bad.is_empty() && first_mt, format!("rejected: {} undecodable record(s), first AVP a Message Type: {first_mt}", bad.len()), format!("Ok({})", show(m)));
                        let avps = match m {
                            rl2tp::Message::Control(c) => c.avps.len(),
                            _ => usize::MAX,
                        };
                        ensure!(avps == l.len(), format!("all {} AVPs, no partial message", l.len()), format!("{avps} AVPs"));
                    }
                    Err(es) => {
                        ensure!(!(bad.is_empty() && first_mt), "Ok: every record decodes and the first is a Message Type (or the body is empty)", format!("Err({})", show(es)));
                        ensure!(!es.is_empty(), "a non-empty error list", "Err([])");
                        if !l.is_empty() && rf::rec_is_message_type(&l[0]) {
                            ensure!(es.len() == bad.len(), format!("exactly one error per undecodable record, in wire order: {} error(s) {}", bad.len(), show(&bad)), format!("{} error(s): {}", es.len(), show(es)));
                            for (i, (e, s)) in es.iter().zip(bad.iter()).enumerate() {
                                if let Some(x) = s {
                                    ensure!(x.same_variant(e), format!("error {i} attributable to bad record {i}: {}", show(x)), show(e));
                                }
                            }
                        }
                    }
                }
                Ok(())
            });
        }
    }
}

// =====================================================================================================
// C16  enumerated protocol fields accept exactly their assigned code points, one-to-one
pub const ENUM_FIELDS: [&str; 7] = ["message-type", "error-type", "proxy-authen-type", "stop-ccn", "cdn", "result-code", "attribute-type"];

/// facts about one code of one field on the real crate: (accepted, re-encoded number, named value, details)
struct EnumFacts {
    accepted: bool,
    reencoded: Option<u64>,
    named: Option<String>,
    named_encodes_to: Option<u64>,
    detail: String,
}
fn enum_facts(field: &str, x: u16) -> EnumFacts {
    let xx = x as u64;
    let via_avp = |kind: u16, payload: Vec<u8>, code_at: usize| -> (bool, Option<u64>, Option<AVP>, String) {
        let wire = rec(kind, &payload);
        let (l, rem) = dec_avps(&wire);
        let detail = format!("decode_avps({}) = {} remaining {rem}", hexz(&wire), show(&l));
        if l.len() == 1 && rem == 0 {
            if let Ok(a) = &l[0] {
                let e = enc_avp(a);
                let re = if e.len() >= 6 + code_at + 2 { Some(rf::be16(&e[6 + code_at..])) } else { None };
                return (true, re, Some(a.clone()), detail);
            }
        }
        (false, None, None, detail)
    };
    match field {
        "message-type" => {
            let (acc, re, a, detail) = via_avp(0, rf::enc16(xx), 0);
            let named = a.as_ref().map(|a| match a {
                AVP::MessageType(m) => format!("{m:?}"),
                o => format!("{o:?}"),
            });
            let nenc = rf::message_type_of(xx).map(|m| rf::be16(&enc_avp(&AVP::MessageType(m))[6..]));
            EnumFacts { accepted: acc, reencoded: re, named, named_encodes_to: nenc, detail }
        }
        "error-type" => {
            let mut p = rf::enc16(1);
            p.extend(rf::enc16(xx));
            let (acc, re, a, detail) = via_avp(1, p, 2);
            let named = a.as_ref().map(|a| match a {
                AVP::ResultCode(r) => r.error.as_ref().map(|e| format!("{:?}", e.error_type)).unwrap_or("no error field".into()),
                o => format!("{o:?}"),
            });
            let nenc = rf::error_type_of(xx).map(|et| {
                let a = AVP::ResultCode(t::ResultCode { code: 1u16.into(), error: Some(t::result_code::Error { error_type: et, error_message: None }) });
                rf::be16(&enc_avp(&a)[8..])
            });
            EnumFacts { accepted: acc, reencoded: re, named, named_encodes_to: nenc, detail }
        }
        "proxy-authen-type" => {
            let (acc, re, a, detail) = via_avp(29, rf::enc16(xx), 0);
            let named = a.as_ref().map(|a| match a {
                AVP::ProxyAuthenType(m) => format!("{m:?}"),
                o => format!("{o:?}"),
            });
            let nenc = rf::proxy_authen_type_of(xx).map(|m| rf::be16(&enc_avp(&AVP::ProxyAuthenType(m))[6..]));
            EnumFacts { accepted: acc, reencoded: re, named, named_encodes_to: nenc, detail }
        }
        "stop-ccn" => {
            let c = t::result_code::CodeValue::from(x);
            let r = c.as_stop_ccn();
            let named_val = rf::ALL_STOP_CCN_CODES.iter().copied().find(|v| Some(format!("{v:?}").as_str()) == rf::STOP_CCN_CODE.of(xx));
            EnumFacts {
                accepted: r.is_ok(),
                reencoded: Some(u16::from(c) as u64),
                named: r.as_ref().ok().map(|v| format!("{v:?}")),
                named_encodes_to: named_val.map(|v| u16::from(t::result_code::CodeValue::from(v)) as u64),
                detail: format!("CodeValue::from({x}).as_stop_ccn() = {r:?}; raw {:?}", c),
            }
        }
        "cdn" => {
            let c = t::result_code::CodeValue::from(x);
            let r = c.as_cdn();
            let named_val = rf::ALL_CDN_CODES.iter().copied().find(|v| Some(format!("{v:?}").as_str()) == rf::CDN_CODE.of(xx));
            EnumFacts {
                accepted: r.is_ok(),
                reencoded: Some(u16::from(c) as u64),
                named: r.as_ref().ok().map(|v| format!("{v:?}")),
                named_encodes_to: named_val.map(|v| u16::from(t::result_code::CodeValue::from(v)) as u64),
                detail: format!("CodeValue::from({x}).as_cdn() = {r:?}; raw {:?}", c),
            }
        }
        "result-code" => {
            // kept raw: every code is accepted and re-encodes to itself
            let (acc, re, a, detail) = via_avp(1, rf::enc16(xx), 0);
            let named = a.as_ref().map(|a| match a {
                AVP::ResultCode(r) => format!("{}", rf::code_value_raw(&r.code)),
                o => format!("{o:?}"),
            });
            EnumFacts { accepted: acc, reencoded: re, named, named_encodes_to: None, detail }
        }
        "attribute-type" => {
            // a typical (not boundary) payload, so that a changed length guard of one kind is not reported as an
            // attribute-number fault: variable-length kinds get 8 octets
            let typical = if variable_kinds().iter().any(|k| k.0 == xx as i64) { Some(var_value(xx as i64, 8)) } else { sample_value(xx as i64) };
            let payload = typical.map(|v| rf::payload_enc(&v)).unwrap_or_else(|| vec![0, 1, 0, 2]);
            let wire = rec(x, &payload);
            let (l, rem) = dec_avps(&wire);
            let detail = format!("decode_avps({}) = {} remaining {rem}", hexz(&wire), show(&l));
            let mut f = EnumFacts { accepted: false, reencoded: None, named: None, named_encodes_to: None, detail };
            if l.len() == 1 && rem == 0 {
                if let Ok(a) = &l[0] {
                    f.accepted = true;
                    f.reencoded = Some(rf::be16(&enc_avp(a)[4..]));
                    f.named = Some(format!("{a:?}").split(|c: char| !c.is_alphanumeric()).next().unwrap_or("").to_string());
                }
            }
            f.named_encodes_to = sample_value(xx as i64).and_then(|v| rf::build(&v)).map(|a| rf::be16(&enc_avp(&a)[4..]));
            f
        }
        _ => panic!("unknown field {field}"),
    }
}
fn enum_expect(field: &str, x: u16) -> (bool, Option<String>) {
    let xx = x as u64;
    let name = |tab: &rf::EnumTab| tab.of(xx).map(|s| s.to_string());
    match field {
        "message-type" => (rf::MESSAGE_TYPE.assigned(xx), name(&rf::MESSAGE_TYPE)),
        "error-type" => (rf::ERROR_TYPE.assigned(xx), name(&rf::ERROR_TYPE)),
        "proxy-authen-type" => (rf::PROXY_AUTHEN_TYPE.assigned(xx), name(&rf::PROXY_AUTHEN_TYPE)),
        "stop-ccn" => (rf::STOP_CCN_CODE.assigned(xx), name(&rf::STOP_CCN_CODE)),
        "cdn" => (rf::CDN_CODE.assigned(xx), name(&rf::CDN_CODE)),
        "result-code" => (true, Some(xx.to_string())),
        "attribute-type" => (rf::kind_assigned(xx as i64), rf::kind_name(xx as i64).map(|s| s.to_string())),
        _ => panic!("unknown field {field}"),
    }
}
pub fn enum_code_report(field: &str, x: u16) -> String {
    let f = enum_facts(field, x);
    let (acc, name) = enum_expect(field, x);
    format!(
        "RESULT: accepted={} named={:?} re-encoded={:?} named-value-encodes-to={:?}\n{}\nREFERENCE: assigned={acc} name={name:?}",
        f.accepted, f.named, f.reencoded, f.named_encodes_to, f.detail
    )
}
pub fn c16(ctx: &mut Ctx) {
    for field in ENUM_FIELDS {
        for x in 0..=65535u16 {
            ctx.case(&format!("{field}-{x}"), &|| format!("enum-code {field} {x}"), || {
                let f = enum_facts(field, x);
                let (acc, name) = enum_expect(field, x);
                ensure!(f.accepted == acc, format!("accepted = {acc} ({} is {}an assigned code point of {field})", x, if acc { "" } else { "not " }), format!("accepted = {}: {}", f.accepted, f.detail));
                if acc {
                    ensure!(f.named == name, format!("code {x} is the named value {name:?}"), format!("{:?}: {}", f.named, f.detail));
                    ensure!(f.reencoded == Some(x as u64), format!("re-encodes to {x}"), format!("{:?}: {}", f.reencoded, f.detail));
                    if field != "result-code" {
                        ensure!(f.named_encodes_to == Some(x as u64), format!("the named value {name:?} encodes to its RFC number {x}"), format!("{:?}", f.named_encodes_to));
                    }
                } else if field == "stop-ccn" || field == "cdn" {
                    // kept raw and reported as not convertible
                    ensure!(f.reencoded == Some(x as u64), format!("raw code {x} kept"), format!("{:?}", f.reencoded));
                }
                Ok(())
            });
        }
    }
}

// =====================================================================================================
// C17  bitmask AVPs
pub fn c17(ctx: &mut Ctx) {
    for (kind, num) in MASK_KINDS {
        for x in [false, true] {
            for y in [false, true] {
                ctx.case(&format!("{kind}-new-{x}-{y}"), &|| format!("bitmask {kind} {x} {y}"), || {
                    let (a, b, _) = mask_new_accessors(kind, x, y).unwrap();
                    ensure!(a == x && b == y, format!("accessor of the first parameter = {x}, of the second = {y}"), format!("{a}, {b}"));
                    Ok(())
                });
            }
        }
        let mut words: Vec<u32> = vec![0, 0xffff_ffff, 0x40, 0x80, 0xc0, 0xffff_ff3f, 0x0102_0304, 0x8040_2010, 0x4000_0000, 0x0000_4000, 0x0000_8000, 0x00c0_0000];
        for i in 0..32 {
            words.push(1 << i);
            words.push(!(1u32 << i));
        }
        let mut s: u32 = 0x1234_5678;
        for _ in 0..600 {
            s = s.wrapping_mul(1664525).wrapping_add(1013904223);
            words.push(s);
        }
        for w in words {
            ctx.case(&format!("{kind}-word-{w:08x}"), &|| format!("bitmask-raw {kind} {w:08x}"), || {
                let (b6, b7, v) = match mask_from_word(kind, w).unwrap() {
                    Ok(x) => x,
                    Err(e) => return fail("a 4-octet word decodes", show(&e)),
                };
                ensure!(b6 == (w & 0x40 != 0) && b7 == (w & 0x80 != 0), format!("accessors reflect only their own bit: bit 6 = {}, bit 7 = {}", w & 0x40 != 0, w & 0x80 != 0), format!("{b6}, {b7}"));
                let e = enc_avp(&v);
                ensure!(e.len() == 10 && e[6..] == w.to_be_bytes(), format!("all 32 bits survive: {w:08x}"), hexz(&e));
                // through the AVP list decoder as well
                let (l, _) = dec_avps(&rec(num as u16, &w.to_be_bytes()));
                ensure!(l.len() == 1 && l[0].as_ref().ok() == Some(&v), format!("[Ok({})]", show(&v)), show(&l));
                Ok(())
            });
        }
    }
}

// =====================================================================================================
// C18  SliceReader and VecWriter behave as a plain cursor and a plain byte vector
pub fn reader_ops_trace(data: &[u8], ops: &str) -> Vec<String> {
    let mut r = SliceReader::from(data);
    let mut out = vec![];
    for op in ops.split(',').filter(|s| !s.is_empty()) {
        let res = unsafe {
            match op {
                "u8" => format!("{}", r.read_u8_unchecked()),
                "u16" => format!("{}", r.read_u16_be_unchecked()),
                "u32" => format!("{}", r.read_u32_be_unchecked()),
                "u64" => format!("{}", r.read_u64_be_unchecked()),
                "len" => format!("{}", r.len()),
                "empty" => format!("{}", r.is_empty()),
                _ => {
                    if let Some(n) = op.strip_prefix("sub") {
                        let n: usize = n.parse().unwrap();
                        let mut s = r.subreader(n);
                        let l = s.len();
                        let e = s.is_empty();
                        let mut got = vec![];
                        while !s.is_empty() && got.len() < n + 4 {
                            got.push(s.read_u8_unchecked());
                        }
                        format!("len {l} empty {e} octets {}", hex(&got))
                    } else if let Some(n) = op.strip_prefix('b') {
                        format!("{:?}", r.bytes(n.parse().unwrap()).map(hex))
                    } else if let Some(n) = op.strip_prefix('s') {
                        r.skip_bytes(n.parse().unwrap());
                        "()".to_string()
                    } else {
                        panic!("unknown reader op {op}")
                    }
                }
            }
        };
        out.push(format!("{op} -> {res} | remaining {} empty {}", r.len(), r.is_empty()));
    }
    out
}
/// the reference cursor; `None` when an operation's precondition does not hold
pub fn reader_ops_model(data: &[u8], ops: &str) -> Option<Vec<String>> {
    let mut pos = 0usize;
    let mut out = vec![];
    for op in ops.split(',').filter(|s| !s.is_empty()) {
        let rem = data.len() - pos;
        let int = |w: usize, pos: &mut usize| -> Option<String> {
            if rem < w {
                return None;
            }
            let mut x: u64 = 0;
            for k in 0..w {
                x = x * 256 + data[*pos + k] as u64;
            }
            *pos += w;
            Some(x.to_string())
        };
        let res = match op {
            "u8" => int(1, &mut pos)?,
            "u16" => int(2, &mut pos)?,
            "u32" => int(4, &mut pos)?,
            "u64" => int(8, &mut pos)?,
            "len" => rem.to_string(),
            "empty" => (rem == 0).to_string(),
            _ => {
                if let Some(n) = op.strip_prefix("sub") {
                    let n: usize = n.parse().unwrap();
                    if n > rem {
                        return None;
                    }
                    let s = &data[pos..pos + n];
                    pos += n;
                    format!("len {n} empty {} octets {}", n == 0, hex(s))
                } else if let Some(n) = op.strip_prefix('b') {
                    let n: usize = n.parse().unwrap();
                    if n > rem {
                        "None".to_string()
                    } else {
                        let s = &data[pos..pos + n];
                        pos += n;
                        format!("{:?}", Some(hex(s)))
                    }
                } else if let Some(n) = op.strip_prefix('s') {
                    let n: usize = n.parse().unwrap();
                    if n > rem {
                        return None;
                    }
                    pos += n;
                    "()".to_string()
                } else {
                    panic!("unknown reader op {op}")
                }
            }
        };
        out.push(format!("{op} -> {res} | remaining {} empty {}", data.len() - pos, data.len() == pos));
    }
    Some(out)
}
pub fn writer_ops_trace(ops: &str) -> Vec<String> {
    let mut w = VecWriter::new();
    let mut out = vec![format!("new -> data - len {} empty {}", w.len(), w.is_empty())];
    for op in ops.split(',').filter(|s| !s.is_empty()) {
        let f: Vec<&str> = op.split(':').collect();
        let mut note = "";
        match f[0] {
            "w8" => w.write_u8(f[1].parse().unwrap()),
            "w16" => w.write_u16_be(f[1].parse().unwrap()),
            "w32" => w.write_u32_be(f[1].parse().unwrap()),
            "w64" => w.write_u64_be(f[1].parse().unwrap()),
            "b" => w.write_bytes(&unhex(f[1])),
            "at" => {
                let off: usize = f[1].parse().unwrap();
                let bytes = unhex(f[2]);
                if catch(|| w.write_bytes_at(&bytes, off)).is_err() {
                    note = " REFUSED";
                }
            }
            _ => panic!("unknown writer op {op}"),
        }
        out.push(format!("{op} ->{note} data {} len {} empty {}", hexz(&w.data), w.len(), w.is_empty()));
    }
    out
}
pub fn writer_ops_model(ops: &str) -> Vec<String> {
    let mut d: Vec<u8> = vec![];
    let mut out = vec![format!("new -> data - len 0 empty true")];
    for op in ops.split(',').filter(|s| !s.is_empty()) {
        let f: Vec<&str> = op.split(':').collect();
        let mut note = "";
        match f[0] {
            "w8" => d.push(f[1].parse().unwrap()),
            "w16" => d.extend(f[1].parse::<u16>().unwrap().to_be_bytes()),
            "w32" => d.extend(f[1].parse::<u32>().unwrap().to_be_bytes()),
            "w64" => d.extend(f[1].parse::<u64>().unwrap().to_be_bytes()),
            "b" => d.extend(unhex(f[1])),
            "at" => {
                let off: usize = f[1].parse().unwrap();
                let bytes = unhex(f[2]);
                match off.checked_add(bytes.len()) {
                    Some(end) if end <= d.len() => d[off..end].copy_from_slice(&bytes),
                    _ => note = " REFUSED",
                }
            }
            _ => panic!("unknown writer op {op}"),
        }
        out.push(format!("{op} ->{note} data {} len {} empty {}", hexz(&d), d.len(), d.is_empty()));
    }
    out
}
pub fn c18(ctx: &mut Ctx) {
    // ---- reader: every sequence of up to three operations on short slices
    let check_reader = |data: &[u8], ops: &str| -> CaseResult {
        let want = match reader_ops_model(data, ops) {
            Some(w) => w,
            None => return Ok(()),
        };
        let got = reader_ops_trace(data, ops);
        for (i, (g, w)) in got.iter().zip(want.iter()).enumerate() {
            ensure!(g == w, format!("step {i}: {w}"), format!("step {i}: {g}"));
        }
        ensure!(got.len() == want.len(), format!("{} steps", want.len()), format!("{} steps", got.len()));
        Ok(())
    };
    for dlen in [0usize, 1, 2, 3, 4, 8, 9, 16, 17] {
        let data = pat(dlen, dlen + 1);
        let mut alphabet: Vec<String> = ["u8", "u16", "u32", "u64", "len", "empty", "b0", "b1", "b3", "s0", "s1", "s2", "sub0", "sub1", "sub3", "b1000", "b18446744073709551615"].iter().map(|s| s.to_string()).collect();
        alphabet.push(format!("b{dlen}"));
        alphabet.push(format!("b{}", dlen + 1));
        alphabet.push(format!("sub{dlen}"));
        alphabet.push(format!("s{dlen}"));
        for l in piece_lists(3, alphabet.len()).into_iter().filter(|l| !l.is_empty()) {
            let ops: Vec<&str> = l.iter().map(|i| alphabet[*i].as_str()).collect();
            let ops = ops.join(",");
            if reader_ops_model(&data, &ops).is_none() {
                continue; // a precondition does not hold
            }
            ctx.case(&format!("reader-{dlen}-{ops}"), &|| format!("reader-ops {} {ops}", hexz(&data)), || check_reader(&data, &ops));
        }
    }
    // long pseudo-random sequences
    let mut s: u64 = 0x2545f4914f6cdd1d;
    let mut next = move |m: usize| -> usize {
        s ^= s << 13;
        s ^= s >> 7;
        s ^= s << 17;
        (s >> 11) as usize % m
    };
    for k in 0..400 {
        let dlen = [64usize, 300, 1000][k % 3];
        let data = pat(dlen, k);
        let mut ops: Vec<String> = vec![];
        let mut rem = dlen;
        for _ in 0..40 {
            let c = next(9);
            let n = next(12);
            let (op, used) = match c {
                0 if rem >= 1 => ("u8".to_string(), 1),
                1 if rem >= 2 => ("u16".to_string(), 2),
                2 if rem >= 4 => ("u32".to_string(), 4),
                3 if rem >= 8 => ("u64".to_string(), 8),
                4 => (format!("b{n}"), if n <= rem { n } else { 0 }),
                5 if n <= rem => (format!("s{n}"), n),
                6 if n <= rem => (format!("sub{n}"), n),
                7 => (format!("b{}", rem + 1 + n), 0),
                _ => ("len".to_string(), 0),
            };
            rem -= used;
            ops.push(op);
        }
        let ops = ops.join(",");
        ctx.case(&format!("reader-random-{k}"), &|| format!("reader-ops {} {ops}", hexz(&data)), || check_reader(&data, &ops));
    }
    // ---- writer
    let check_writer = |ops: &str| -> CaseResult {
        let want = writer_ops_model(ops);
        let got = writer_ops_trace(ops);
        for (i, (g, w)) in got.iter().zip(want.iter()).enumerate() {
            ensure!(g == w, format!("step {i}: {w}"), format!("step {i}: {g}"));
        }
        ensure!(got.len() == want.len(), format!("{} steps", want.len()), format!("{} steps", got.len()));
        Ok(())
    };
    // templates: `L` stands for the current length of the buffer
    let templates = ["w8:171", "w16:258", "w32:16909060", "w64:72623859790382856", "b:-", "b:0a0b0c", "at:0:ff", "at:1:eedd", "at:L-1:cc", "at:L-2:bbaa", "at:L:dd", "at:L-1:9988", "at:1000:00", "at:0:-", "at:L:-", "at:18446744073709551615:77"];
    for l in piece_lists(4, templates.len()).into_iter().filter(|l| !l.is_empty()) {
        // concrete offsets from the model's length
        let mut len = 0usize;
        let mut ops: Vec<String> = vec![];
        let mut ok = true;
        for i in &l {
            let t = templates[*i];
            let f: Vec<&str> = t.split(':').collect();
            let op = if f[0] == "at" {
                let off = match f[1] {
                    "L" => Some(len),
                    "L-1" => len.checked_sub(1),
                    "L-2" => len.checked_sub(2),
                    x => x.parse().ok(),
                };
                match off {
                    Some(o) => format!("at:{o}:{}", f[2]),
                    None => {
                        ok = false;
                        break;
                    }
                }
            } else {
                t.to_string()
            };
            len += match f[0] {
                "w8" => 1,
                "w16" => 2,
                "w32" => 4,
                "w64" => 8,
                "b" => unhex(f[1]).len(),
                _ => 0,
            };
            ops.push(op);
        }
        if !ok {
            continue;
        }
        let ops = ops.join(",");
        ctx.case(&format!("writer-{ops}"), &|| format!("writer-ops {ops}"), || check_writer(&ops));
    }
}

// =====================================================================================================
// C19  the codec is pure
#[derive(Clone)]
enum PureOp {
    Msg(Vec<u8>, Entry),
    Avps(Vec<u8>),
    EncAvp(AvpV),
    EncMsg(rf::MsgV),
    Hide(HideCase),
    Reveal(usize),
    ErrText(&'static str, u16),
}
fn pure_ops() -> Vec<(String, PureOp)> {
    let mut out = vec![];
    for (i, (n, b)) in message_corpus().into_iter().enumerate() {
        if i % 97 == 0 || n.contains("ctl-1320-mt+host") || n.contains("all-kinds") || n.contains("non-canonical") {
            for e in [Some(STRICT), Some(NONE), None] {
                out.push((format!("decode-{n}/{}", entry_text(&e)), PureOp::Msg(b.clone(), e)));
            }
        }
    }
    for (n, b) in control_single_avp_corpus().into_iter().step_by(53) {
        out.push((format!("decode-{n}"), PureOp::Msg(b, Some(STRICT))));
    }
    for (n, b) in avp_list_corpus(2).into_iter().step_by(41) {
        out.push((format!("avps-{n}"), PureOp::Avps(b)));
    }
    for (i, v) in encodable_avps(false).into_iter().enumerate().step_by(11) {
        out.push((format!("encode-avp-k{}-{i}", v.kind), PureOp::EncAvp(v)));
    }
    for (n, c) in crate::props_a::round_trip_controls().into_iter().step_by(29) {
        out.push((format!("encode-ctl-{n}"), PureOp::EncMsg(rf::MsgV::Control(c))));
    }
    for (n, d) in crate::props_a::round_trip_datas().into_iter().step_by(67) {
        out.push((format!("encode-data-{n}"), PureOp::EncMsg(rf::MsgV::Data(d))));
    }
    for hc in hide_cases().into_iter().step_by(301) {
        out.push((format!("hide-{}", hc.name()), PureOp::Hide(hc)));
    }
    for i in (0..reveal_cases().len()).step_by(173) {
        out.push((format!("reveal-{i}"), PureOp::Reveal(i)));
    }
    for (i, n) in ERROR_VARIANTS.iter().enumerate() {
        out.push((format!("error-text-{n}"), PureOp::ErrText(n, (i * 3) as u16)));
    }
    out
}
impl PureOp {
    fn replay(&self, rcs: &[RevealCase]) -> String {
        match self {
            PureOp::Msg(b, e) => format!("decode-message {} {}", hexz(b), entry_text(e)),
            PureOp::Avps(b) => format!("decode-avps {}", hexz(b)),
            PureOp::EncAvp(v) => format!("encode-avps - {}", avp_desc(v)),
            PureOp::EncMsg(m) => format!("encode-messages - {}", msg_desc(m)),
            PureOp::Hide(hc) => hc.replay(),
            PureOp::Reveal(i) => rcs[*i].replay(),
            PureOp::ErrText(n, x) => format!("error-string {n} {x}"),
        }
    }
    /// the observable result, as text
    fn run(&self, rcs: &[RevealCase]) -> String {
        match self {
            PureOp::Msg(b, e) => format!("{:?}", dec_msg(b, e)),
            PureOp::Avps(b) => format!("{:?}", dec_avps(b)),
            PureOp::EncAvp(v) => hex(&enc_avp(&rf::build(v).unwrap())),
            PureOp::EncMsg(m) => hex(&enc_msg(&rf::build_message(m).unwrap())),
            PureOp::Hide(hc) => {
                let (_, h) = hc.hide();
                format!("{h:?} -> {:?}", h.clone().reveal(&hc.secret, &RandomVector { value: hc.rv }))
            }
            PureOp::Reveal(i) => format!("{:?}", rcs[*i].run()),
            PureOp::ErrText(n, x) => error_by_name(n, *x).unwrap().0.to_string(),
        }
    }
}
pub fn c19(ctx: &mut Ctx) {
    let rcs = reveal_cases();
    let ops = pure_ops();
    // each operation alone: the parent process counts the octets on stdout/stderr; here: same result when repeated
    for (name, op) in &ops {
        ctx.case(name, &|| op.replay(&rcs), || {
            // a panic is a (deterministic) result here; totality belongs to C01 / C13
            let run = || catch(|| op.run(&rcs)).unwrap_or_else(|p| format!("PANIC: {p}"));
            let first = run();
            for k in 0..3 {
                let again = run();
                ensure!(again == first, format!("the same result when repeated: {}", clip(&first, 300)), format!("call {}: {}", k + 2, clip(&again, 300)));
            }
            Ok(())
        });
    }
    // interleaved with other calls
    let firsts: Vec<String> = ops.iter().map(|(_, op)| catch(|| op.run(&rcs)).unwrap_or_else(|p| format!("PANIC: {p}"))).collect();
    for (i, (name, op)) in ops.iter().enumerate() {
        ctx.case(&format!("interleaved-{name}"), &|| op.replay(&rcs), || {
            for j in [1usize, 7, 13] {
                let other = &ops[(i + j) % ops.len()].1;
                let _ = catch(|| other.run(&rcs));
                let again = catch(|| op.run(&rcs)).unwrap_or_else(|p| format!("PANIC: {p}"));
                ensure!(again == firsts[i], format!("the same result after other calls: {}", clip(&firsts[i], 300)), clip(&again, 300));
            }
            Ok(())
        });
    }
    // concurrently from many threads
    let shared = std::sync::Arc::new((ops.clone(), firsts.clone(), reveal_cases()));
    for (i, (name, op)) in ops.iter().enumerate().step_by(3) {
        ctx.case(&format!("threads-{name}"), &|| op.replay(&rcs), || {
            let hs: Vec<_> = (0..8)
                .map(|tn| {
                    let sh = shared.clone();
                    std::thread::spawn(move || {
                        let rcs = &sh.2;
                        let mut bad: Option<String> = None;
                        for k in 0..6 {
                            // every thread mixes the case under test with different other operations
                            let j = (i + tn * 5 + k) % sh.0.len();
                            let _ = catch(|| sh.0[j].1.run(rcs));
                            let r = catch(|| sh.0[i].1.run(rcs)).unwrap_or_else(|p| format!("PANIC: {p}"));
                            if r != sh.1[i] {
                                bad = Some(r);
                            }
                        }
                        bad
                    })
                })
                .collect();
            for h in hs {
                if let Some(b) = h.join().unwrap() {
                    return fail(format!("the same result on every thread: {}", clip(&firsts[i], 300)), clip(&b, 300));
                }
            }
            Ok(())
        });
    }
}

// =====================================================================================================
// C20  decode errors identify the offending field and render with the right AVP name
fn err_is(res: &MsgRes<&[u8]>, want: &[rf::ExpectedErr]) -> bool {
    match res {
        Err(es) => es.len() == want.len() && es.iter().zip(want.iter()).all(|(e, w)| w.matches(e)),
        Ok(_) => false,
    }
}
pub fn c20(ctx: &mut Ctx) {
    use rf::ExpectedErr as E;
    let good_body = {
        let mut b = rec(0, &[0, 1]);
        b.extend(rec(7, b"host"));
        b.extend(rec(9, &[0, 5]));
        b
    };
    let good = control_ok(&good_body);
    // the unfaulted messages decode
    ctx.case("baseline-control", &|| format!("decode-message {} rvu", hexz(&good)), || {
        let (r, _) = dec_msg_o(&good, STRICT);
        ensure!(r.is_ok(), "Ok: the unfaulted control message", show(&r));
        Ok(())
    });
    let mut faults: Vec<(String, Vec<u8>, Opts, Vec<E>)> = vec![];
    // version nibble
    for ver in (0..16u16).filter(|v| *v != 2) {
        let mut b = good.clone();
        b[1] = (b[1] & 0x0f) | ((ver as u8) << 4);
        faults.push((format!("version-{ver}"), b.clone(), STRICT, vec![E::InvalidVersion(ver as u8)]));
        faults.push((format!("version-{ver}-v"), b, Opts { r: false, v: true, u: false }, vec![E::InvalidVersion(ver as u8)]));
        let mut d = vec![0x00, (ver as u8) << 4, 0, 1, 0, 2, 0xaa];
        d[0] = 0x80;
        faults.push((format!("version-{ver}-data"), d, STRICT, vec![E::InvalidVersion(ver as u8)]));
    }
    // one bad record after a valid Message Type (and a good record after it)
    let mut with_record = |name: String, r: Vec<u8>, e: E| {
        for pos in 0..2 {
            let mut body = rec(0, &[0, 1]);
            if pos == 1 {
                body.extend(rec(7, b"host"));
            }
            body.extend(&r);
            body.extend(rec(9, &[0, 5]));
            faults.push((format!("{name}-at{}", pos + 1), control_ok(&body), STRICT, vec![e.clone()]));
        }
    };
    for x in [20u16, 40, 41, 100, 255, 256, 0x2700, 65535] {
        with_record(format!("unknown-avp-{x}"), rec(x, &[0, 1]), E::UnknownAvp(x));
    }
    for x in [0u16, 5, 13, 17, 255, 256, 0x0100, 65535] {
        with_record(format!("unknown-message-type-{x}"), rec(0, &x.to_be_bytes()), E::UnknownMessageType(x));
    }
    for x in [1u16, 9, 255, 256, 65535] {
        with_record(format!("vendor-{x}"), rec_raw(1, 8, x, 9, &[0, 5]), E::UnsupportedVendorId(x));
        with_record(format!("vendor-{x}-hidden"), rec_raw(3, 8, x, 7, &[0, 5]), E::UnsupportedVendorId(x));
        with_record(format!("vendor-{x}-unknown-kind"), rec_raw(1, 8, x, 77, &[0, 5]), E::UnsupportedVendorId(x));
    }
    for x in [9u16, 10, 255, 256, 65535] {
        let mut p = vec![0, 1];
        p.extend(x.to_be_bytes());
        with_record(format!("error-type-{x}"), rec(1, &p), E::InvalidResultCodeErrorType(x));
        p.extend(b"text");
        with_record(format!("error-type-{x}-with-message"), rec(1, &p), E::InvalidResultCodeErrorType(x));
    }
    for k in rf::assigned_kinds() {
        let min = rf::kind_min_len(k).unwrap();
        let sample = rf::payload_enc(&sample_value(k).unwrap());
        for n in 0..min {
            with_record(format!("truncated-k{k}-len{n}"), rec(k as u16, &sample[..n]), E::IncompleteAVP(k as u16));
        }
    }
    for (k, fixed, utf8, _) in variable_kinds() {
        if !utf8 {
            continue;
        }
        let head: Vec<u8> = if k == 1 { vec![0, 2, 0, 6] } else { pat(fixed, 5) };
        for (i, bad) in INVALID_UTF8.iter().enumerate() {
            let mut p = head.clone();
            p.extend(b"ab");
            p.extend(bad.iter());
            with_record(format!("non-utf8-k{k}-{i}"), rec(k as u16, &p), E::InvalidUtf8(k as u16));
        }
    }
    // the single fault sits in the Message Type AVP itself (the first AVP): its own error is reported, not masked
    for x in [0u16, 5, 13, 17, 255, 256, 65535] {
        let mut body = rec(0, &x.to_be_bytes());
        body.extend(rec(7, b"host"));
        body.extend(rec(9, &[0, 5]));
        faults.push((format!("first-unknown-message-type-{x}"), control_ok(&body), STRICT, vec![E::UnknownMessageType(x)]));
    }
    for n in 0..2usize {
        let mut body = rec(0, &[0u8, 1][..n]);
        body.extend(rec(7, b"host"));
        faults.push((format!("first-truncated-message-type-len{n}"), control_ok(&body), STRICT, vec![E::IncompleteAVP(0)]));
    }
    for x in [1u16, 9, 65535] {
        let mut body = rec_raw(1, 8, x, 0, &[0, 1]);
        body.extend(rec(7, b"host"));
        faults.push((format!("first-vendor-{x}"), control_ok(&body), STRICT, vec![E::UnsupportedVendorId(x)]));
    }
    // offset size beyond the message
    for (w, with_s) in [(0x4020u16, false), (0x5020, true), (0xc020, false)] {
        for (n, avail) in [(1u16, 0usize), (2, 1), (100, 5), (65535, 300)] {
            let mut b = w.to_be_bytes().to_vec();
            b.extend([0, 1, 0, 2]);
            if with_s {
                b.extend([0, 3, 0, 4]);
            }
            b.extend(n.to_be_bytes());
            b.extend(pat(avail, 1));
            faults.push((format!("offset-{n}-avail{avail}-{w:04x}"), b, STRICT, vec![E::InvalidOffset(n)]));
        }
    }
    for (name, b, o, want) in &faults {
        ctx.case(name, &|| format!("decode-message {} {}", hexz(b), o.text()), || {
            // the search's own expectation must be the specification's
            let named = rf::message_named_errors(b, o.r, o.v, o.u);
            let spec: Option<Vec<E>> = named.map(|l| l.into_iter().flatten().collect());
            assert!(spec.as_ref() == Some(want), "search bug: the reference names {spec:?}, the case expects {want:?}");
            let (res, _) = dec_msg_o(b, *o);
            ensure!(err_is(&res, want), format!("Err({})", show(want)), show(&res));
            Ok(())
        });
    }
    // the same identities from the AVP list decoder, the per-type decoders and reveal
    for kind in wire_kinds() {
        for (i, p) in payloads_of(kind, false).iter().enumerate() {
            let r = rec(kind as u16, p);
            ctx.case(&format!("avps-k{kind}-p{i}"), &|| format!("decode-avps {}", hexz(&r)), || {
                let (l, _) = dec_avps(&r);
                let spec = rf::avp_list(&r);
                for (g, s) in l.iter().zip(spec.iter()) {
                    ensure!(rf::rec_err(g, s), show(s), show(g));
                }
                Ok(())
            });
            if rf::kind_assigned(kind) && kind != 39 {
                ctx.case(&format!("type-k{kind}-p{i}"), &|| format!("decode-type {kind} {}", hexz(p)), || {
                    if let Some((g, _)) = dec_type_slice(kind, p) {
                        let s = rf::decode_avp(kind, p);
                        ensure!(rf::rec_err(&g, &s), show(&s), show(&g));
                    }
                    Ok(())
                });
            }
        }
    }
    for (name, r) in header_variant_records() {
        ctx.case(&format!("avps-{name}"), &|| format!("decode-avps {}", hexz(&r)), || {
            let (l, _) = dec_avps(&r);
            let spec = rf::avp_list(&r);
            for (g, s) in l.iter().zip(spec.iter()) {
                ensure!(rf::rec_err(g, s), show(s), show(g));
            }
            Ok(())
        });
    }
    // (errors returned by `reveal` are C12's: C20 is about decoding messages)
    // rendering
    let mut values: Vec<u16> = (0..=45).collect();
    values.extend([100u16, 255, 256, 257, 0x0700, 9999, 32767, 32768, 65534, 65535]);
    let all_names: Vec<&str> = rf::assigned_kinds().into_iter().map(|k| rf::kind_name(k).unwrap()).collect();
    let every: Vec<u16> = (0..=65535u16).collect();
    for vname in ERROR_VARIANTS {
        // errors that name an AVP kind are rendered for EVERY attribute number (the name of an assigned kind, the
        // number itself otherwise); the others for the sample values
        let names = error_by_name(vname, 0).map(|t| t.2).unwrap_or(false);
        for x in (if names { &every } else { &values }) {
            let (e, has_payload, names_kind) = error_by_name(vname, *x).unwrap();
            if !has_payload && *x != 0 {
                continue;
            }
            ctx.case(&format!("render-{vname}-{x}"), &|| format!("error-string {vname} {x}"), || {
                let s = match catch(|| e.to_string()) {
                    Ok(s) => s,
                    Err(p) => return fail("to_string() succeeds", format!("PANIC: {p}")),
                };
                ensure!(!s.trim().is_empty(), "a non-empty text", format!("{s:?}"));
                if names_kind {
                    let tokens: Vec<&str> = s.split(|c: char| !c.is_alphanumeric()).filter(|t| !t.is_empty()).collect();
                    let want = rf::kind_name(*x as i64).map(|n| n.to_string()).unwrap_or_else(|| x.to_string());
                    ensure!(tokens.contains(&want.as_str()), format!("the text names {want} (attribute type {x})"), format!("{s:?}"));
                    let others: Vec<&&str> = tokens.iter().filter(|t| all_names.contains(*t) && **t != want).collect();
                    ensure!(others.is_empty(), format!("the text names only {want}"), format!("{s:?}"));
                }
                Ok(())
            });
        }
    }
}

#[allow(dead_code)]
fn _types(_: &RecV) {}
