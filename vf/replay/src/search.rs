//! `vf_replay search <Cxx>`: deterministic, bounded witness search of one property on the real crate.
//!
//! Process structure.  The parent starts a child (`--child <file> search Cxx --from K`).  The child
//! enumerates numbered cases; before each case it records the case number in `<file>.progress`, runs the
//! case under `catch_unwind`, and appends every witness to `<file>` at once.  A watchdog thread ends the
//! child when one case runs longer than `CASE_LIMIT`.  When the child ends without `DONE` (abort, signal,
//! hang) the parent asks a second child to describe the recorded case (`--describe K`), reports it, and
//! restarts the enumeration after it.  For C19 the parent also looks at the octets the child wrote to
//! stdout/stderr (the child itself writes only to files) and attributes them by running cases one by one.
use crate::util::clip;
use std::fs::{File, OpenOptions};
use std::io::Write;
use std::sync::atomic::{AtomicU64, Ordering};
use std::sync::Arc;
use std::time::{Duration, Instant};

pub use crate::props_b::{enum_code_report, reader_ops_trace, writer_ops_trace};

pub const CASE_LIMIT: Duration = Duration::from_secs(4);
pub const MAX_WITNESSES: usize = 12;

pub struct Fail {
    pub expected: String,
    pub actual: String,
}
pub type CaseResult = Result<(), Fail>;
pub fn fail<T>(expected: impl Into<String>, actual: impl Into<String>) -> Result<T, Fail> {
    Err(Fail { expected: expected.into(), actual: actual.into() })
}
#[macro_export]
macro_rules! ensure {
    ($cond:expr, $exp:expr, $act:expr) => {
        if !($cond) {
            return Err($crate::search::Fail { expected: $exp.to_string(), actual: $act.to_string() });
        }
    };
}

#[derive(Clone, Debug)]
struct Wit {
    size: usize,
    seq: usize,
    name: String,
    replay: String,
    expected: String,
    actual: String,
}

enum Mode {
    Run { from: usize },
    Only(usize),
    Describe(usize),
}

struct Watch {
    /// case number + 1 (0 = idle)
    cur: AtomicU64,
    since_ms: AtomicU64,
}

pub struct Ctx {
    pub prop: String,
    mode: Mode,
    idx: usize,
    out: File,
    progress: File,
    tops: Vec<(usize, usize)>,
    watch: Arc<Watch>,
    t0: Instant,
}

impl Ctx {
    fn new(prop: &str, mode: Mode, out_path: &str) -> Ctx {
        let out = OpenOptions::new().create(true).append(true).open(out_path).unwrap();
        let progress = OpenOptions::new().create(true).write(true).truncate(true).open(format!("{out_path}.progress")).unwrap();
        let watch = Arc::new(Watch { cur: AtomicU64::new(0), since_ms: AtomicU64::new(0) });
        let t0 = Instant::now();
        {
            let watch = watch.clone();
            let out_path = out_path.to_string();
            std::thread::spawn(move || loop {
                std::thread::sleep(Duration::from_millis(100));
                let cur = watch.cur.load(Ordering::SeqCst);
                if cur == 0 {
                    continue;
                }
                let since = watch.since_ms.load(Ordering::SeqCst);
                let now = t0.elapsed().as_millis() as u64;
                if now > since + CASE_LIMIT.as_millis() as u64 && watch.cur.load(Ordering::SeqCst) == cur {
                    if let Ok(mut f) = OpenOptions::new().append(true).open(&out_path) {
                        let _ = writeln!(f, "HANG\t{}", cur - 1);
                    }
                    std::process::exit(0);
                }
            });
        }
        Ctx { prop: prop.to_string(), mode, idx: 0, out, progress, tops: vec![], watch, t0 }
    }

    /// One numbered case.  `replay` gives the subcommand line that reproduces it; `f` checks the property
    /// statement on the real crate.  A panic that escapes `f` is a failure of the case.
    pub fn case(&mut self, name: &str, replay: &dyn Fn() -> String, f: impl FnOnce() -> CaseResult) {
        let idx = self.idx;
        self.idx += 1;
        match self.mode {
            Mode::Run { from } => {
                if idx < from {
                    return;
                }
            }
            Mode::Only(i) => {
                if idx != i {
                    return;
                }
            }
            Mode::Describe(i) => {
                if idx == i {
                    let _ = writeln!(self.out, "DESC\t{}\t{}", clip(name, 200), clip(&replay(), 100000));
                    let _ = writeln!(self.out, "DONE");
                    std::process::exit(0);
                }
                return;
            }
        }
        {
            use std::os::unix::fs::FileExt;
            let _ = self.progress.write_at(&(idx as u64).to_le_bytes(), 0);
        }
        self.watch.since_ms.store(self.t0.elapsed().as_millis() as u64, Ordering::SeqCst);
        self.watch.cur.store(idx as u64 + 1, Ordering::SeqCst);
        let r = match std::panic::catch_unwind(std::panic::AssertUnwindSafe(f)) {
            Ok(r) => r,
            Err(p) => Err(Fail { expected: "the call returns".into(), actual: format!("PANIC: {}", crate::ops::panic_text(p)) }),
        };
        self.watch.cur.store(0, Ordering::SeqCst);
        if let Err(fl) = r {
            let replay = replay();
            // value mismatches rank before crashes (a crash is often shared with other properties' searches)
            let key = (replay.len() + if fl.actual.starts_with("PANIC") { 1_000_000 } else { 0 }, idx);
            // keep only candidates for the three smallest
            if self.tops.len() < MAX_WITNESSES || key < *self.tops.last().unwrap() {
                self.tops.push(key);
                self.tops.sort();
                self.tops.truncate(MAX_WITNESSES);
                let _ = writeln!(
                    self.out,
                    "W\t{}\t{}\t{}\t{}\t{}\t{}",
                    key.0,
                    idx,
                    clip(name, 200),
                    clip(&replay, 100000),
                    clip(&fl.expected, 1500),
                    clip(&fl.actual, 1500)
                );
                let _ = self.out.flush();
            }
        }
    }
    fn finish(&mut self) {
        let _ = writeln!(self.out, "CASES\t{}", self.idx);
        let _ = writeln!(self.out, "DONE");
        let _ = self.out.flush();
    }
}

pub fn properties() -> Vec<&'static str> {
    vec!["C01", "C02", "C03", "C04", "C05", "C06", "C07", "C08", "C09", "C10", "C11", "C12", "C13", "C14", "C15", "C16", "C17", "C18", "C19", "C20"]
}

fn run_property(ctx: &mut Ctx) {
    use crate::{props_a as a, props_b as b};
    match ctx.prop.clone().as_str() {
        "C01" => a::c01(ctx),
        "C02" => a::c02(ctx),
        "C03" => a::c03(ctx),
        "C04" => a::c04(ctx),
        "C05" => a::c05(ctx),
        "C06" => a::c06(ctx),
        "C07" => a::c07(ctx),
        "C08" => a::c08(ctx),
        "C09" => a::c09(ctx),
        "C10" => a::c10(ctx),
        "C11" => b::c11(ctx),
        "C12" => b::c12(ctx),
        "C13" => b::c13(ctx),
        "C14" => b::c14(ctx),
        "C15" => b::c15(ctx),
        "C16" => b::c16(ctx),
        "C17" => b::c17(ctx),
        "C18" => b::c18(ctx),
        "C19" => b::c19(ctx),
        "C20" => b::c20(ctx),
        p => panic!("unknown property {p}"),
    }
}

/// `--child <file> search Cxx [--from K | --only K | --describe K]`
pub fn child_main(out_path: &str, args: &[String]) {
    crate::ops::silence_panics();
    let prop = args[0].clone();
    let mut mode = Mode::Run { from: 0 };
    if args.len() >= 3 {
        let k: usize = args[2].parse().unwrap();
        mode = match args[1].as_str() {
            "--from" => Mode::Run { from: k },
            "--only" => Mode::Only(k),
            "--describe" => Mode::Describe(k),
            x => panic!("unknown search flag {x}"),
        };
    }
    let mut ctx = Ctx::new(&prop, mode, out_path);
    run_property(&mut ctx);
    ctx.finish();
}

struct Parsed {
    wits: Vec<Wit>,
    done: bool,
    hang: Option<usize>,
    cases: Option<usize>,
    desc: Option<(String, String)>,
}
fn parse_result(s: &str) -> Parsed {
    let mut p = Parsed { wits: vec![], done: false, hang: None, cases: None, desc: None };
    for line in s.lines() {
        let f: Vec<&str> = line.split('\t').collect();
        match f[0] {
            "W" if f.len() >= 7 => p.wits.push(Wit {
                size: f[1].parse().unwrap_or(0),
                seq: f[2].parse().unwrap_or(0),
                name: f[3].into(),
                replay: f[4].into(),
                expected: f[5].into(),
                actual: f[6].into(),
            }),
            "DONE" => p.done = true,
            "HANG" if f.len() >= 2 => p.hang = f[1].parse().ok(),
            "CASES" if f.len() >= 2 => p.cases = f[1].parse().ok(),
            "DESC" if f.len() >= 3 => p.desc = Some((f[1].into(), f[2].into())),
            _ => {}
        }
    }
    p
}
fn sargs(v: &[&str]) -> Vec<String> {
    v.iter().map(|s| s.to_string()).collect()
}
fn describe(prop: &str, idx: usize) -> (String, String) {
    let r = crate::run_child(&sargs(&["search", prop, "--describe", &idx.to_string()]), Duration::from_secs(120));
    r.result.as_deref().map(parse_result).and_then(|p| p.desc).unwrap_or_else(|| (format!("case-{idx}"), format!("search {prop} --only {idx}")))
}

pub fn parent_main(args: &[String]) -> i32 {
    if args.is_empty() || !properties().contains(&args[0].as_str()) {
        eprintln!("usage: vf_replay search <C01..C20>");
        return 2;
    }
    let prop = args[0].as_str();
    if args.len() >= 3 {
        // pass-through for debugging: search Cxx --only K / --describe K / --from K
        let r = crate::run_child(&[vec!["search".to_string()], args.to_vec()].concat(), Duration::from_secs(600));
        println!("{}", r.result.unwrap_or_default());
        println!("EXIT: {:?} SIGNAL: {:?} STDOUT_BYTES: {} STDERR_BYTES: {}", r.code, r.signal, r.stdout.len(), r.stderr.len());
        return 0;
    }
    let t0 = Instant::now();
    let mut wits: Vec<Wit> = vec![];
    let mut from = 0usize;
    let mut specials = 0usize;
    let mut cases: usize = 0;
    let mut io_seen = false;
    loop {
        let run = crate::run_child(&sargs(&["search", prop, "--from", &from.to_string()]), Duration::from_secs(900));
        let parsed = parse_result(run.result.as_deref().unwrap_or(""));
        wits.extend(parsed.wits.iter().cloned());
        if !run.stdout.is_empty() || !run.stderr.is_empty() {
            io_seen = true;
        }
        if parsed.done {
            cases = parsed.cases.unwrap_or(0);
            break;
        }
        // the child died: abort, signal, hang
        let idx = parsed.hang.or_else(|| run.progress.as_ref().and_then(|b| b.get(..8).map(|x| u64::from_le_bytes(x.try_into().unwrap()) as usize)));
        let Some(idx) = idx else {
            wits.push(Wit {
                size: 0,
                seq: 0,
                name: "search-child-died".into(),
                replay: format!("search {prop}"),
                expected: "the search child runs".into(),
                actual: format!("child ended with exit {:?} signal {:?} before its first case", run.code, run.signal),
            });
            break;
        };
        let (name, replay) = describe(prop, idx);
        let actual = if parsed.hang.is_some() || run.timed_out {
            format!("HANG: no result after {} s (possible non-termination)", CASE_LIMIT.as_secs())
        } else {
            format!("ABORT: process ended abnormally: exit code {:?}, signal {:?}", run.code, run.signal)
        };
        wits.push(Wit { size: replay.len(), seq: idx, name, replay, expected: "the call returns (Ok or Err) within the time bound".into(), actual });
        cases = cases.max(idx + 1);
        specials += 1;
        if specials >= MAX_WITNESSES {
            break;
        }
        from = idx + 1;
    }
    if prop == "C19" && io_seen {
        // attribute the octets: one child per case
        let mut found = 0;
        for i in 0..cases {
            let r = crate::run_child(&sargs(&["search", prop, "--only", &i.to_string()]), Duration::from_secs(60));
            if !r.stdout.is_empty() || !r.stderr.is_empty() {
                let (name, replay) = describe(prop, i);
                wits.push(Wit {
                    size: replay.len(),
                    seq: i,
                    name,
                    replay,
                    expected: "no octet on stdout or stderr".into(),
                    actual: format!(
                        "{} octet(s) on stdout, {} on stderr: {:?}",
                        r.stdout.len(),
                        r.stderr.len(),
                        clip(&String::from_utf8_lossy(if r.stdout.is_empty() { &r.stderr } else { &r.stdout }), 120)
                    ),
                });
                found += 1;
                if found >= MAX_WITNESSES {
                    break;
                }
            }
        }
        if found == 0 {
            wits.push(Wit {
                size: 0,
                seq: 0,
                name: "whole-run".into(),
                replay: format!("search {prop}"),
                expected: "no octet on stdout or stderr".into(),
                actual: "the search child wrote to stdout/stderr, no single case did".into(),
            });
        }
    }
    wits.sort_by_key(|w| (w.size, w.seq));
    wits.dedup_by_key(|w| w.seq);
    if wits.is_empty() {
        println!("NO-WITNESS property={prop} cases={cases}");
    } else {
        for w in wits.iter().take(MAX_WITNESSES) {
            println!("WITNESS property={prop} case={} replay={}", w.name.replace(' ', "_"), w.replay);
            println!("  expected: {}", w.expected);
            println!("  actual: {}", w.actual);
        }
    }
    eprintln!("search {prop}: {cases} cases, {:.1} s", t0.elapsed().as_secs_f64());
    0
}
