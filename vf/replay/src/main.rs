//! Replays a concrete input against the real rl2tp crate (public API only) and prints what happened.
//! Used by /verif/check to attach real-code behaviour to a failed obligation, and by `./check --replay`.
//! The parent process re-executes itself as a child so that everything the library writes to
//! stdout/stderr can be counted.
use rl2tp::avp::types::{Hidden, RandomVector};
use rl2tp::avp::AVP;
use rl2tp::common::{Reader, SliceReader, VecWriter};
use rl2tp::{Message, ValidateReserved, ValidateUnused, ValidateVersion, ValidationOptions};
use std::io::Write as _;
use std::panic::{catch_unwind, AssertUnwindSafe};

fn unhex(s: &str) -> Vec<u8> {
    let s: Vec<u8> = s.bytes().filter(|c| c.is_ascii_hexdigit()).collect();
    s.chunks(2)
        .map(|p| u8::from_str_radix(std::str::from_utf8(p).unwrap(), 16).unwrap())
        .collect()
}
fn hex(b: &[u8]) -> String {
    b.iter().map(|x| format!("{x:02x}")).collect()
}
fn opts(s: &str) -> ValidationOptions {
    ValidationOptions {
        reserved: if s.contains('r') { ValidateReserved::Yes } else { ValidateReserved::No },
        version: if s.contains('v') { ValidateVersion::Yes } else { ValidateVersion::No },
        unused: if s.contains('u') { ValidateUnused::Yes } else { ValidateUnused::No },
    }
}

fn guarded<F: FnOnce() -> String>(f: F) -> String {
    std::panic::set_hook(Box::new(|_| {}));
    match catch_unwind(AssertUnwindSafe(f)) {
        Ok(s) => s,
        Err(e) => {
            let msg = e
                .downcast_ref::<String>()
                .cloned()
                .or_else(|| e.downcast_ref::<&str>().map(|s| s.to_string()))
                .unwrap_or_else(|| "?".into());
            format!("PANIC: {msg}")
        }
    }
}

fn child(args: &[String]) -> String {
    match args[0].as_str() {
        "decode-message" => {
            let data = unhex(&args[1]);
            guarded(|| {
                let mut r = SliceReader::from(&data);
                let res = if args[2] == "default" {
                    Message::<&[u8]>::try_read(&mut r)
                } else {
                    Message::<&[u8]>::try_read_validate(&mut r, opts(&args[2]))
                };
                format!("RESULT: {res:?}\nREMAINING: {}", r.len())
            })
        }
        "decode-avps" => {
            let data = unhex(&args[1]);
            guarded(|| {
                let mut r = SliceReader::from(&data);
                let res = AVP::try_read_greedy::<&[u8]>(&mut r);
                format!("RESULT: {res:?}\nREMAINING: {}", r.len())
            })
        }
        "reveal" => {
            let t: u16 = args[1].parse().unwrap();
            let value = unhex(&args[2]);
            let secret = unhex(&args[3]);
            let rv = unhex(&args[4]);
            guarded(|| {
                let h = AVP::Hidden(Hidden { attribute_type: t, value });
                let rv = RandomVector { value: [rv[0], rv[1], rv[2], rv[3]] };
                format!("RESULT: {:?}", h.reveal(&secret, &rv))
            })
        }
        "slice-bytes" => {
            let data = unhex(&args[1]);
            let n: usize = args[2].parse().unwrap();
            guarded(|| {
                let mut r = SliceReader::from(&data);
                let res = r.bytes(n).map(hex);
                format!("RESULT: {res:?}\nREMAINING: {}", r.len())
            })
        }
        "encode-decode-message" => {
            // decode `hex` (must be accepted), re-encode, decode strictly again
            let data = unhex(&args[1]);
            guarded(|| {
                let mut r = SliceReader::from(&data);
                let m = Message::<&[u8]>::try_read_validate(&mut r, opts(&args[2]));
                match m {
                    Err(e) => format!("RESULT: first decode Err({e:?})"),
                    Ok(m) => {
                        let mut w = VecWriter::new();
                        m.write(&mut w);
                        let mut r2 = SliceReader::from(&w.data);
                        let m2 = Message::<&[u8]>::try_read_validate(&mut r2, opts("rvu"));
                        format!("DECODED: {m:?}\nENCODED: {}\nRESULT: {m2:?}\nREMAINING: {}", hex(&w.data), r2.len())
                    }
                }
            })
        }
        "bitmask" => {
            use rl2tp::avp::types::*;
            let x = args[2] == "true";
            let y = args[3] == "true";
            guarded(|| match args[1].as_str() {
                "BearerCapabilities" => {
                    let v = BearerCapabilities::new(x, y);
                    format!("RESULT: new(digital={x}, analog={y}) -> is_digital_access_supported={} is_analog_access_supported={}",
                        v.is_digital_access_supported(), v.is_analog_access_supported())
                }
                "FramingCapabilities" => {
                    let v = FramingCapabilities::new(x, y);
                    format!("RESULT: new(async={x}, sync={y}) -> is_async_framing_supported={} is_sync_framing_supported={}",
                        v.is_async_framing_supported(), v.is_sync_framing_supported())
                }
                "BearerType" => {
                    let v = BearerType::new(x, y);
                    format!("RESULT: new(analog={x}, digital={y}) -> is_analog_request={} is_digital_request={}",
                        v.is_analog_request(), v.is_digital_request())
                }
                "FramingType" => {
                    let v = FramingType::new(x, y);
                    format!("RESULT: new(analog={x}, digital={y}) -> is_analog_request={} is_digital_request={}",
                        v.is_analog_request(), v.is_digital_request())
                }
                k => format!("unknown kind {k}"),
            })
        }
        c => format!("unknown command {c}"),
    }
}

fn main() {
    let args: Vec<String> = std::env::args().skip(1).collect();
    if args.is_empty() {
        eprintln!("usage: vf_replay <command> <args..>");
        std::process::exit(2);
    }
    if args[0] == "--child" {
        let out_path = &args[1];
        let s = child(&args[2..]);
        std::fs::write(out_path, s).unwrap();
        return;
    }
    let exe = std::env::current_exe().unwrap();
    let tmp = std::env::temp_dir().join(format!("vf_replay_{}.out", std::process::id()));
    let out = std::process::Command::new(exe)
        .arg("--child")
        .arg(&tmp)
        .args(&args)
        .output()
        .unwrap();
    let res = std::fs::read_to_string(&tmp).unwrap_or_else(|_| "CHILD DIED (abort / signal)".into());
    let _ = std::fs::remove_file(&tmp);
    println!("COMMAND: {}", args.join(" "));
    println!("{res}");
    println!("EXIT: {:?}", out.status.code());
    println!("STDOUT_BYTES: {}", out.stdout.len());
    println!("STDERR_BYTES: {}", out.stderr.len());
    if !out.stdout.is_empty() {
        println!("STDOUT_HEAD: {:?}", String::from_utf8_lossy(&out.stdout[..out.stdout.len().min(200)]));
    }
    std::io::stdout().flush().unwrap();
}
