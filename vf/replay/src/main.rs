//! Replays a concrete input against the real rl2tp crate (public API only) and prints what happened.
//! Used by /verif/check to attach real-code behaviour to a failed obligation, and by `./check --replay`.
//! The parent process re-executes itself as a child so that everything the library writes to
//! stdout/stderr can be counted, and so that an abort or a hang of the library cannot take the tool down.
//!
//! `vf_replay search <Cxx>` runs the deterministic bounded witness search of one property (src/search.rs).
mod cmds;
mod corpus;
mod ops;
mod props_a;
mod props_b;
mod reference;
mod search;
mod util;

use std::io::{Read, Write as _};
use std::time::{Duration, Instant};

pub struct ChildRun {
    pub code: Option<i32>,
    pub signal: Option<i32>,
    pub timed_out: bool,
    pub stdout: Vec<u8>,
    pub stderr: Vec<u8>,
    pub result: Option<String>,
    /// content of <file>.progress (search children record the running case number there)
    pub progress: Option<Vec<u8>>,
}

static RUN_SEQ: std::sync::atomic::AtomicU32 = std::sync::atomic::AtomicU32::new(0);

/// run `vf_replay --child <file> <args..>`; the child writes its result to <file>; its stdout/stderr are captured
pub fn run_child(args: &[String], timeout: Duration) -> ChildRun {
    use std::process::{Command, Stdio};
    let exe = std::env::current_exe().unwrap();
    let seq = RUN_SEQ.fetch_add(1, std::sync::atomic::Ordering::SeqCst);
    let tmp = std::env::temp_dir().join(format!("vf_replay_{}_{}.out", std::process::id(), seq));
    let _ = std::fs::remove_file(&tmp);
    let mut child = Command::new(exe)
        .arg("--child")
        .arg(&tmp)
        .args(args)
        .stdin(Stdio::null())
        .stdout(Stdio::piped())
        .stderr(Stdio::piped())
        .spawn()
        .unwrap();
    let mut so = child.stdout.take().unwrap();
    let mut se = child.stderr.take().unwrap();
    let t1 = std::thread::spawn(move || {
        let mut v = vec![];
        let _ = so.read_to_end(&mut v);
        v
    });
    let t2 = std::thread::spawn(move || {
        let mut v = vec![];
        let _ = se.read_to_end(&mut v);
        v
    });
    let start = Instant::now();
    let mut timed_out = false;
    let status = loop {
        match child.try_wait().unwrap() {
            Some(s) => break s,
            None => {
                if start.elapsed() > timeout {
                    timed_out = true;
                    let _ = child.kill();
                    break child.wait().unwrap();
                }
                std::thread::sleep(Duration::from_millis(if start.elapsed() < Duration::from_millis(200) { 1 } else { 20 }));
            }
        }
    };
    let stdout = t1.join().unwrap_or_default();
    let stderr = t2.join().unwrap_or_default();
    let result = std::fs::read_to_string(&tmp).ok();
    let _ = std::fs::remove_file(&tmp);
    let ptmp = std::path::PathBuf::from(format!("{}.progress", tmp.display()));
    let progress = std::fs::read(&ptmp).ok();
    let _ = std::fs::remove_file(&ptmp);
    #[cfg(unix)]
    let signal = {
        use std::os::unix::process::ExitStatusExt;
        status.signal()
    };
    #[cfg(not(unix))]
    let signal = None;
    ChildRun { code: status.code(), signal, timed_out, stdout, stderr, result, progress }
}

fn main() {
    let args: Vec<String> = std::env::args().skip(1).collect();
    if args.is_empty() {
        eprintln!("usage: vf_replay <command> <args..>\n{}", cmds::USAGE);
        std::process::exit(2);
    }
    if args[0] == "--child" {
        let out_path = &args[1];
        if args[2] == "search" {
            // the search child appends to its result file as it goes (it may be killed at any moment)
            search::child_main(out_path, &args[3..]);
            return;
        }
        let s = cmds::child(&args[2..]);
        std::fs::write(out_path, s).unwrap();
        return;
    }
    if args[0] == "search" {
        let code = search::parent_main(&args[1..]);
        std::io::stdout().flush().unwrap();
        std::process::exit(code);
    }
    let out = run_child(&args, Duration::from_secs(60));
    let res = match &out.result {
        Some(r) => r.clone(),
        None if out.timed_out => "CHILD TIMED OUT (no result after 60 s; possible non-termination)".into(),
        None => "CHILD DIED (abort / signal)".into(),
    };
    println!("COMMAND: {}", args.join(" "));
    println!("{res}");
    println!("EXIT: {:?}{}", out.code, out.signal.map(|s| format!(" SIGNAL: {s}")).unwrap_or_default());
    println!("STDOUT_BYTES: {}", out.stdout.len());
    println!("STDERR_BYTES: {}", out.stderr.len());
    if !out.stdout.is_empty() {
        println!("STDOUT_HEAD: {:?}", String::from_utf8_lossy(&out.stdout[..out.stdout.len().min(200)]));
    }
    if !out.stderr.is_empty() {
        println!("STDERR_HEAD: {:?}", String::from_utf8_lossy(&out.stderr[..out.stderr.len().min(200)]));
    }
    std::io::stdout().flush().unwrap();
}
