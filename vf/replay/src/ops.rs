//! Calls into the real crate (public API only), shared by the replay subcommands and the searches:
//! decode / encode wrappers, a second conforming `Reader`, a recording `Writer`, per-type decoders.
#![allow(dead_code)]

use crate::util::{Entry, Opts};
use core::borrow::Borrow;
use rl2tp::avp::types as t;
use rl2tp::avp::AVP;
use rl2tp::common::{DecodeError, Reader, SliceReader, VecWriter, Writer};
use rl2tp::Message;
use std::collections::VecDeque;
use std::panic::{catch_unwind, AssertUnwindSafe};

pub fn silence_panics() {
    std::panic::set_hook(Box::new(|_| {}));
}
pub fn panic_text(e: Box<dyn std::any::Any + Send>) -> String {
    e.downcast_ref::<String>().cloned().or_else(|| e.downcast_ref::<&str>().map(|s| s.to_string())).unwrap_or_else(|| "?".into())
}
/// run `f`; a panic becomes `Err(message)`
pub fn catch<T>(f: impl FnOnce() -> T) -> Result<T, String> {
    catch_unwind(AssertUnwindSafe(f)).map_err(panic_text)
}

pub type MsgRes<T> = Result<Message<T>, Vec<DecodeError>>;
pub type AvpRes = Result<AVP, DecodeError>;

/// decode one message from a `SliceReader`; second component = octets left in the reader
pub fn dec_msg<'a>(b: &'a [u8], e: &Entry) -> (MsgRes<&'a [u8]>, usize) {
    let mut r = SliceReader::from(b);
    let res = match e {
        None => Message::<&[u8]>::try_read(&mut r),
        Some(o) => Message::<&[u8]>::try_read_validate(&mut r, o.real()),
    };
    (res, r.len())
}
pub fn dec_msg_o<'a>(b: &'a [u8], o: Opts) -> (MsgRes<&'a [u8]>, usize) {
    dec_msg(b, &Some(o))
}
pub fn dec_avps(b: &[u8]) -> (Vec<AvpRes>, usize) {
    let mut r = SliceReader::from(b);
    let res = AVP::try_read_greedy::<&[u8]>(&mut r);
    (res, r.len())
}
pub fn enc_avp_into(a: &AVP, w: &mut impl Writer) {
    a.write(w);
}
pub fn enc_avp(a: &AVP) -> Vec<u8> {
    let mut w = VecWriter::new();
    a.write(&mut w);
    w.data
}
pub fn enc_msg<T: Borrow<[u8]>>(m: &Message<T>) -> Vec<u8> {
    let mut w = VecWriter::new();
    m.write(&mut w);
    w.data
}
pub fn writer_with(prefix: &[u8]) -> VecWriter {
    let mut w = VecWriter::new();
    w.write_bytes(prefix);
    w
}

// =====================================================================================================
// A second conforming Reader: owns its octets in a ring buffer, hands out owned Vec<u8>, and panics with
// a distinctive message when an unchecked call violates the Reader contract (requested octets must remain).
pub const PRE: &str = "VF-READER-PRECONDITION";

#[derive(Clone, Debug)]
pub struct DequeReader {
    data: VecDeque<u8>,
}
impl DequeReader {
    /// `rot` octets of slack are pushed and popped first so that the ring buffer's storage wraps
    pub fn new(b: &[u8], rot: usize) -> Self {
        let mut d: VecDeque<u8> = VecDeque::with_capacity(b.len() + 1);
        for _ in 0..rot.min(b.len()) {
            d.push_back(0);
        }
        for _ in 0..rot.min(b.len()) {
            d.pop_front();
        }
        d.extend(b.iter().copied());
        DequeReader { data: d }
    }
    fn need(&self, n: usize, what: &str) {
        if self.data.len() < n {
            panic!("{PRE}: {what} needs {n} octet(s), {} remain", self.data.len());
        }
    }
    fn take(&mut self, n: usize) -> Vec<u8> {
        self.data.drain(..n).collect()
    }
}
impl Reader<Vec<u8>> for DequeReader {
    fn is_empty(&self) -> bool {
        self.data.is_empty()
    }
    fn len(&self) -> usize {
        self.data.len()
    }
    fn subreader(&mut self, length: usize) -> Self {
        self.need(length, "subreader");
        let v = self.take(length);
        DequeReader { data: v.into() }
    }
    fn bytes(&mut self, length: usize) -> Option<Vec<u8>> {
        if length > self.data.len() {
            return None;
        }
        Some(self.take(length))
    }
    unsafe fn read_u8_unchecked(&mut self) -> u8 {
        self.need(1, "read_u8_unchecked");
        self.take(1)[0]
    }
    unsafe fn read_u16_be_unchecked(&mut self) -> u16 {
        self.need(2, "read_u16_be_unchecked");
        let v = self.take(2);
        u16::from_be_bytes([v[0], v[1]])
    }
    unsafe fn read_u32_be_unchecked(&mut self) -> u32 {
        self.need(4, "read_u32_be_unchecked");
        let v = self.take(4);
        u32::from_be_bytes([v[0], v[1], v[2], v[3]])
    }
    unsafe fn read_u64_be_unchecked(&mut self) -> u64 {
        self.need(8, "read_u64_be_unchecked");
        let v = self.take(8);
        u64::from_be_bytes([v[0], v[1], v[2], v[3], v[4], v[5], v[6], v[7]])
    }
    fn skip_bytes(&mut self, length: usize) {
        self.need(length, "skip_bytes");
        self.take(length);
    }
}
pub fn alt_dec_msg(b: &[u8], e: &Entry, rot: usize) -> (MsgRes<Vec<u8>>, usize) {
    let mut r = DequeReader::new(b, rot);
    let res = match e {
        None => Message::<Vec<u8>>::try_read(&mut r),
        Some(o) => Message::<Vec<u8>>::try_read_validate(&mut r, o.real()),
    };
    (res, r.len())
}
pub fn alt_dec_avps(b: &[u8], rot: usize) -> (Vec<AvpRes>, usize) {
    let mut r = DequeReader::new(b, rot);
    let res = AVP::try_read_greedy::<Vec<u8>>(&mut r);
    (res, r.len())
}

/// per-type payload decoder of attribute number `kind` (the public `T::try_read`), for any reader.
/// The number -> type association is the specification table's (type name = AVP variant name).
/// `None`: the kind has no payload decoder (unassigned; SequencingRequired has no `try_read`).
pub fn decode_type<T: Borrow<[u8]>>(kind: i64, r: &mut impl Reader<T>) -> Option<AvpRes> {
    Some(match kind {
        0 => t::MessageType::try_read(r).map(AVP::MessageType),
        1 => t::ResultCode::try_read(r).map(AVP::ResultCode),
        2 => t::ProtocolVersion::try_read(r).map(AVP::ProtocolVersion),
        3 => t::FramingCapabilities::try_read(r).map(AVP::FramingCapabilities),
        4 => t::BearerCapabilities::try_read(r).map(AVP::BearerCapabilities),
        5 => t::TieBreaker::try_read(r).map(AVP::TieBreaker),
        6 => t::FirmwareRevision::try_read(r).map(AVP::FirmwareRevision),
        7 => t::HostName::try_read(r).map(AVP::HostName),
        8 => t::VendorName::try_read(r).map(AVP::VendorName),
        9 => t::AssignedTunnelId::try_read(r).map(AVP::AssignedTunnelId),
        10 => t::ReceiveWindowSize::try_read(r).map(AVP::ReceiveWindowSize),
        11 => t::Challenge::try_read(r).map(AVP::Challenge),
        12 => t::Q931CauseCode::try_read(r).map(AVP::Q931CauseCode),
        13 => t::ChallengeResponse::try_read(r).map(AVP::ChallengeResponse),
        14 => t::AssignedSessionId::try_read(r).map(AVP::AssignedSessionId),
        15 => t::CallSerialNumber::try_read(r).map(AVP::CallSerialNumber),
        16 => t::MinimumBps::try_read(r).map(AVP::MinimumBps),
        17 => t::MaximumBps::try_read(r).map(AVP::MaximumBps),
        18 => t::BearerType::try_read(r).map(AVP::BearerType),
        19 => t::FramingType::try_read(r).map(AVP::FramingType),
        21 => t::CalledNumber::try_read(r).map(AVP::CalledNumber),
        22 => t::CallingNumber::try_read(r).map(AVP::CallingNumber),
        23 => t::SubAddress::try_read(r).map(AVP::SubAddress),
        24 => t::TxConnectSpeed::try_read(r).map(AVP::TxConnectSpeed),
        25 => t::PhysicalChannelId::try_read(r).map(AVP::PhysicalChannelId),
        26 => t::InitialReceivedLcpConfReq::try_read(r).map(AVP::InitialReceivedLcpConfReq),
        27 => t::LastSentLcpConfReq::try_read(r).map(AVP::LastSentLcpConfReq),
        28 => t::LastReceivedLcpConfReq::try_read(r).map(AVP::LastReceivedLcpConfReq),
        29 => t::ProxyAuthenType::try_read(r).map(AVP::ProxyAuthenType),
        30 => t::ProxyAuthenName::try_read(r).map(AVP::ProxyAuthenName),
        31 => t::ProxyAuthenChallenge::try_read(r).map(AVP::ProxyAuthenChallenge),
        32 => t::ProxyAuthenId::try_read(r).map(AVP::ProxyAuthenId),
        33 => t::ProxyAuthenResponse::try_read(r).map(AVP::ProxyAuthenResponse),
        34 => t::CallErrors::try_read(r).map(AVP::CallErrors),
        35 => t::Accm::try_read(r).map(AVP::Accm),
        36 => t::RandomVector::try_read(r).map(AVP::RandomVector),
        37 => t::PrivateGroupId::try_read(r).map(AVP::PrivateGroupId),
        38 => t::RxConnectSpeed::try_read(r).map(AVP::RxConnectSpeed),
        _ => return None,
    })
}
pub fn dec_type_slice(kind: i64, p: &[u8]) -> Option<(AvpRes, usize)> {
    let mut r = SliceReader::from(p);
    let res = decode_type::<&[u8]>(kind, &mut r)?;
    Some((res, r.len()))
}
pub fn dec_type_alt(kind: i64, p: &[u8], rot: usize) -> Option<(AvpRes, usize)> {
    let mut r = DequeReader::new(p, rot);
    let res = decode_type::<Vec<u8>>(kind, &mut r)?;
    Some((res, r.len()))
}

// =====================================================================================================
// A Writer that keeps a plain Vec and records every positional overwrite it is asked to perform.
#[derive(Clone, Debug, Default)]
pub struct RecWriter {
    pub data: Vec<u8>,
    /// (offset, number of octets, length of the buffer at that moment)
    pub overwrites: Vec<(usize, usize, usize)>,
}
impl RecWriter {
    pub fn with(prefix: &[u8]) -> Self {
        RecWriter { data: prefix.to_vec(), overwrites: vec![] }
    }
}
impl Writer for RecWriter {
    fn is_empty(&self) -> bool {
        self.data.is_empty()
    }
    fn len(&self) -> usize {
        self.data.len()
    }
    fn write_bytes(&mut self, bytes: &[u8]) {
        self.data.extend_from_slice(bytes);
    }
    fn write_bytes_at(&mut self, bytes: &[u8], offset: usize) {
        self.overwrites.push((offset, bytes.len(), self.data.len()));
        if offset.checked_add(bytes.len()).map(|e| e <= self.data.len()) != Some(true) {
            panic!("VF-WRITER-PRECONDITION: write_bytes_at({} octets, offset {offset}) outside the {} octets written", bytes.len(), self.data.len());
        }
        self.data[offset..offset + bytes.len()].copy_from_slice(bytes);
    }
    fn write_u8(&mut self, value: u8) {
        self.data.push(value);
    }
    fn write_u16_be(&mut self, value: u16) {
        self.data.extend_from_slice(&value.to_be_bytes());
    }
    fn write_u32_be(&mut self, value: u32) {
        self.data.extend_from_slice(&value.to_be_bytes());
    }
    fn write_u64_be(&mut self, value: u64) {
        self.data.extend_from_slice(&value.to_be_bytes());
    }
}

// =====================================================================================================
// bitmask kinds: (accessor for bit 6, accessor for bit 7) after Appendix B
pub const MASK_KINDS: [(&str, i64); 4] = [("FramingCapabilities", 3), ("BearerCapabilities", 4), ("BearerType", 18), ("FramingType", 19)];

/// (first constructor parameter's accessor, second constructor parameter's accessor) of `new(x, y)`
pub fn mask_new_accessors(kind: &str, x: bool, y: bool) -> Option<(bool, bool, AVP)> {
    Some(match kind {
        "FramingCapabilities" => {
            let v = t::FramingCapabilities::new(x, y);
            (v.is_async_framing_supported(), v.is_sync_framing_supported(), AVP::FramingCapabilities(v))
        }
        "BearerCapabilities" => {
            let v = t::BearerCapabilities::new(x, y);
            (v.is_digital_access_supported(), v.is_analog_access_supported(), AVP::BearerCapabilities(v))
        }
        "BearerType" => {
            let v = t::BearerType::new(x, y);
            (v.is_analog_request(), v.is_digital_request(), AVP::BearerType(v))
        }
        "FramingType" => {
            let v = t::FramingType::new(x, y);
            (v.is_analog_request(), v.is_digital_request(), AVP::FramingType(v))
        }
        _ => return None,
    })
}
/// decode a 4-octet word with the type's own `try_read`; returns (accessor of bit 6, accessor of bit 7, value)
/// bit 6 / bit 7 roles by Appendix B: FramingCapabilities async/sync; BearerCapabilities analog/digital;
/// BearerType analog/digital; FramingType analog/digital.
pub fn mask_from_word(kind: &str, w: u32) -> Option<Result<(bool, bool, AVP), DecodeError>> {
    let o = w.to_be_bytes();
    let mut r = SliceReader::from(&o);
    Some(match kind {
        "FramingCapabilities" => t::FramingCapabilities::try_read::<&[u8]>(&mut r)
            .map(|v| (v.is_async_framing_supported(), v.is_sync_framing_supported(), AVP::FramingCapabilities(v))),
        "BearerCapabilities" => t::BearerCapabilities::try_read::<&[u8]>(&mut r)
            .map(|v| (v.is_analog_access_supported(), v.is_digital_access_supported(), AVP::BearerCapabilities(v))),
        "BearerType" => t::BearerType::try_read::<&[u8]>(&mut r).map(|v| (v.is_analog_request(), v.is_digital_request(), AVP::BearerType(v))),
        "FramingType" => t::FramingType::try_read::<&[u8]>(&mut r).map(|v| (v.is_analog_request(), v.is_digital_request(), AVP::FramingType(v))),
        _ => return None,
    })
}

// =====================================================================================================
// DecodeError values by variant name (C20 rendering)
pub const ERROR_VARIANTS: [&str; 26] = [
    "IncompleteAVP",
    "UnknownMessageType",
    "InvalidUtf8",
    "InvalidResultCodeErrorType",
    "AVPReadError",
    "InvalidAVPLength",
    "UnknownAvp",
    "EmptyHiddenAVP",
    "MisalignedHiddenAVP",
    "InvalidOriginalAVPLength",
    "UnsupportedVendorId",
    "InvalidVersion",
    "InvalidReservedBits",
    "IncompleteFlags",
    "InvalidOffset",
    "IncompleteDataMessageHeader",
    "IncompleteDataMessagePayload",
    "EmptyDataMessagePayload",
    "MessageReadError",
    "ForbiddenControlMessagePriority",
    "ForbiddenControlMessageOffset",
    "ControlMessageWithoutLength",
    "ControlMessageWithoutNsNr",
    "IncompleteControlMessageHeader",
    "IncompleteControlMessagePayload",
    "ControlMessageTypeNotFirst",
];
/// (value, carries a payload, payload names an AVP kind)
pub fn error_by_name(name: &str, x: u16) -> Option<(DecodeError, bool, bool)> {
    use DecodeError as E;
    Some(match name {
        "IncompleteAVP" => (E::IncompleteAVP(x), true, true),
        "UnknownMessageType" => (E::UnknownMessageType(x), true, false),
        "InvalidUtf8" => (E::InvalidUtf8(x), true, true),
        "InvalidResultCodeErrorType" => (E::InvalidResultCodeErrorType(x), true, false),
        "AVPReadError" => (E::AVPReadError(x), true, true),
        "InvalidAVPLength" => (E::InvalidAVPLength(x), true, false),
        "UnknownAvp" => (E::UnknownAvp(x), true, false),
        "EmptyHiddenAVP" => (E::EmptyHiddenAVP, false, false),
        "MisalignedHiddenAVP" => (E::MisalignedHiddenAVP, false, false),
        "InvalidOriginalAVPLength" => (E::InvalidOriginalAVPLength(x), true, false),
        "UnsupportedVendorId" => (E::UnsupportedVendorId(x), true, false),
        "InvalidVersion" => (E::InvalidVersion(x as u8), true, false),
        "InvalidReservedBits" => (E::InvalidReservedBits, false, false),
        "IncompleteFlags" => (E::IncompleteFlags, false, false),
        "InvalidOffset" => (E::InvalidOffset(x), true, false),
        "IncompleteDataMessageHeader" => (E::IncompleteDataMessageHeader, false, false),
        "IncompleteDataMessagePayload" => (E::IncompleteDataMessagePayload, false, false),
        "EmptyDataMessagePayload" => (E::EmptyDataMessagePayload, false, false),
        "MessageReadError" => (E::MessageReadError, false, false),
        "ForbiddenControlMessagePriority" => (E::ForbiddenControlMessagePriority, false, false),
        "ForbiddenControlMessageOffset" => (E::ForbiddenControlMessageOffset, false, false),
        "ControlMessageWithoutLength" => (E::ControlMessageWithoutLength, false, false),
        "ControlMessageWithoutNsNr" => (E::ControlMessageWithoutNsNr, false, false),
        "IncompleteControlMessageHeader" => (E::IncompleteControlMessageHeader, false, false),
        "IncompleteControlMessagePayload" => (E::IncompleteControlMessagePayload, false, false),
        "ControlMessageTypeNotFirst" => (E::ControlMessageTypeNotFirst, false, false),
        _ => return None,
    })
}
