"""Minimal Rust source scanner used by the crate-image generator.

It is not a parser.  It knows enough lexical structure (comments, string / char
literals, lifetimes, bracket nesting) to locate items, function signatures,
bodies, loops and closures by position, so that the generator can splice
annotations into the *real* source text without re-typing any of it.
"""
import re


class ScanError(Exception):
    pass


def blank(text):
    """Return (blanked, comment_mask): `blanked` has the same length as `text`
    with comments and the contents of string/char literals replaced by spaces
    (newlines kept), so structural searches cannot be fooled by them."""
    out = list(text)
    n = len(text)
    i = 0
    cmask = [False] * n

    def fill(a, b, is_comment=False):
        for k in range(a, b):
            if out[k] != '\n':
                out[k] = ' '
            if is_comment:
                cmask[k] = True

    while i < n:
        c = text[i]
        if c == '/' and i + 1 < n and text[i + 1] == '/':
            j = text.find('\n', i)
            if j < 0:
                j = n
            fill(i, j, True)
            i = j
        elif c == '/' and i + 1 < n and text[i + 1] == '*':
            depth = 1
            j = i + 2
            while j < n and depth:
                if text.startswith('/*', j):
                    depth += 1
                    j += 2
                elif text.startswith('*/', j):
                    depth -= 1
                    j += 2
                else:
                    j += 1
            fill(i, j, True)
            i = j
        elif c == '"' or (c in 'br' and re.match(r'(b?r#*"|b")', text[i:i + 8]) and (i == 0 or not (text[i - 1].isalnum() or text[i - 1] == '_'))):
            m = re.match(r'b?r(#*)"', text[i:])
            if m:
                hashes = m.group(1)
                start = i + m.end()
                end = text.find('"' + hashes, start)
                if end < 0:
                    raise ScanError('unterminated raw string')
                fill(start, end)
                i = end + 1 + len(hashes)
            else:
                j = i + (2 if c == 'b' else 1)
                start = j
                while j < n and text[j] != '"':
                    if text[j] == '\\':
                        j += 1
                    j += 1
                fill(start, j)
                i = j + 1
        elif c == "'":
            # char literal or lifetime
            m = re.match(r"'(\\.[^']*|[^\\'])'", text[i:])
            if m:
                fill(i + 1, i + m.end() - 1)
                i += m.end()
            else:
                i += 1
        else:
            i += 1
    return ''.join(out), cmask


OPEN = {'(': ')', '[': ']', '{': '}'}
CLOSE = {v: k for k, v in OPEN.items()}


def match_bracket(b, i):
    """b: blanked text; i: index of an opening bracket; returns index of its match."""
    o = b[i]
    c = OPEN[o]
    depth = 0
    n = len(b)
    j = i
    while j < n:
        ch = b[j]
        if ch in OPEN:
            depth += 1
        elif ch in CLOSE:
            depth -= 1
            if depth == 0:
                if ch != c:
                    raise ScanError('mismatched bracket at %d' % j)
                return j
        j += 1
    raise ScanError('unbalanced bracket at %d' % i)


def match_angle(b, i):
    """i: index of '<' opening a generic list; returns index of matching '>'."""
    depth = 0
    j = i
    n = len(b)
    while j < n:
        ch = b[j]
        if ch == '<':
            depth += 1
        elif ch == '>':
            if j > 0 and b[j - 1] == '-':
                pass
            else:
                depth -= 1
                if depth == 0:
                    return j
        elif ch in '({[':
            j = match_bracket(b, j)
        elif ch in ';{':
            raise ScanError('unbalanced angle at %d' % i)
        j += 1
    raise ScanError('unbalanced angle at %d' % i)


def skip_ws(b, i):
    n = len(b)
    while i < n and b[i].isspace():
        i += 1
    return i


IDENT = re.compile(r'[A-Za-z_][A-Za-z0-9_]*')


class Fn:
    """A function item located in a text."""
    __slots__ = ('name', 'key', 'kw', 'line_start', 'sig_end', 'body_open', 'body_close',
                 'has_body', 'ctx_kind', 'ctx_type', 'ctx_trait', 'params_open', 'params_close',
                 'generics', 'ret_span', 'where_span', 'item_start')

    def __repr__(self):
        return 'Fn(%s)' % self.key


class Block:
    __slots__ = ('kind', 'header', 'open', 'close', 'type', 'trait', 'name')


def norm(s):
    return re.sub(r'\s+', ' ', s).strip()


def strip_generics(ty):
    """`SliceReader<'a>` -> `SliceReader`;  `From<Vec<u8>>` kept by caller."""
    ty = ty.strip()
    m = re.match(r'([A-Za-z_][A-Za-z0-9_:]*)', ty)
    return m.group(1).split('::')[-1] if m else ty


def parse_impl_header(h):
    """h: text between `impl` and `{` (blanked).  Returns (type, trait|None)."""
    h = norm(h)
    assert h.startswith('impl')
    h = h[4:].strip()
    if h.startswith('<'):
        # skip generic params
        depth = 0
        for k, ch in enumerate(h):
            if ch == '<':
                depth += 1
            elif ch == '>' and (k == 0 or h[k - 1] != '-'):
                depth -= 1
                if depth == 0:
                    h = h[k + 1:].strip()
                    break
    # cut where clause
    mw = re.search(r'\bwhere\b', h)
    if mw:
        h = h[:mw.start()].strip()
    mf = re.search(r'\bfor\b', h)
    if mf:
        trait = h[:mf.start()].strip()
        ty = h[mf.end():].strip()
        tname = strip_generics(trait)
        if tname in ('From', 'TryFrom', 'Into', 'TryInto', 'FromSpecImpl'):
            mg = re.search(r'<(.*)>', trait)
            arg = re.sub(r'\s+', '', mg.group(1)) if mg else ''
            tname = '%s<%s>' % (tname, arg)
        return re.sub(r'\s+', '', ty) if ty.startswith('[') else strip_generics(ty), tname
    return strip_generics(h), None


def scan_items(text, modpath):
    """Locate blocks (impl/trait/mod) and fn items in `text`.
    Returns (fns, blocks)."""
    b, _ = blank(text)
    n = len(b)
    fns = []
    blocks = []
    stack = []  # list of Block
    i = 0
    stmt_start = 0
    while i < n:
        ch = b[i]
        if ch == '{':
            header = b[stmt_start:i]
            hs = norm(re.sub(r'#\[[^\]]*\]', ' ', header))
            hs_novis = re.sub(r'^(pub(\s*\([^)]*\))?\s+)?(unsafe\s+)?', '', hs)
            blk = Block()
            blk.open = i
            blk.header = header
            blk.type = blk.trait = blk.name = None
            if re.match(r'impl\b', hs_novis):
                blk.kind = 'impl'
                blk.type, blk.trait = parse_impl_header(hs_novis)
            elif re.match(r'trait\b', hs_novis):
                blk.kind = 'trait'
                blk.name = IDENT.match(hs_novis[5:].strip()).group(0)
            elif re.match(r'mod\b', hs_novis):
                blk.kind = 'mod'
                blk.name = IDENT.match(hs_novis[3:].strip()).group(0)
            elif re.search(r'(^|\s)fn\s+[A-Za-z_]', hs_novis) and not stack_in_fn(stack):
                blk.kind = 'fn'
            else:
                blk.kind = 'other'
            if blk.kind in ('other', 'fn'):
                # skip whole block: nothing item-like inside we care about
                close = match_bracket(b, i)
                blk.close = close
                if blk.kind == 'fn':
                    f = make_fn(b, stmt_start, i, close, stack, modpath)
                    if f:
                        fns.append(f)
                i = close + 1
                stmt_start = i
                continue
            blk.close = match_bracket(b, i)
            blocks.append(blk)
            stack.append(blk)
            i += 1
            stmt_start = i
            continue
        if ch == '}':
            if stack and stack[-1].close == i:
                stack.pop()
            i += 1
            stmt_start = i
            continue
        if ch == ';':
            header = b[stmt_start:i]
            hs = norm(re.sub(r'#\[[^\]]*\]', ' ', header))
            if re.search(r'(^|\s)fn\s+[A-Za-z_]', hs) and '=' not in hs.split('fn')[0]:
                f = make_fn(b, stmt_start, None, i, stack, modpath)
                if f:
                    fns.append(f)
            i += 1
            stmt_start = i
            continue
        if ch in '([':
            i = match_bracket(b, i) + 1
            continue
        i += 1
    return fns, blocks


def stack_in_fn(stack):
    return any(s.kind == 'fn' for s in stack)


def make_fn(b, stmt_start, body_open, end, stack, modpath):
    seg_end = body_open if body_open is not None else end
    m = None
    for mm in re.finditer(r'\bfn\s+([A-Za-z_][A-Za-z0-9_]*)', b[stmt_start:seg_end]):
        m = mm
        break
    if not m:
        return None
    f = Fn()
    f.name = m.group(1)
    f.kw = stmt_start + m.start()
    # start of the line holding `fn`
    ls = b.rfind('\n', 0, f.kw) + 1
    f.line_start = ls
    f.item_start = skip_ws(b, stmt_start)
    f.has_body = body_open is not None
    f.body_open = body_open
    f.body_close = end if body_open is not None else None
    f.sig_end = seg_end
    j = stmt_start + m.end()
    j = skip_ws(b, j)
    f.generics = None
    if b[j] == '<':
        k = match_angle(b, j)
        f.generics = (j, k)
        j = skip_ws(b, k + 1)
    if b[j] != '(':
        raise ScanError('expected ( in fn %s' % f.name)
    f.params_open = j
    f.params_close = match_bracket(b, j)
    j = skip_ws(b, f.params_close + 1)
    f.ret_span = None
    f.where_span = None
    if b.startswith('->', j):
        r0 = skip_ws(b, j + 2)
        mw = re.search(r'\bwhere\b', b[r0:seg_end])
        r1 = r0 + mw.start() if mw else seg_end
        # trim
        while r1 > r0 and b[r1 - 1].isspace():
            r1 -= 1
        f.ret_span = (r0, r1)
        j = r1
    mw = re.search(r'\bwhere\b', b[j:seg_end])
    if mw:
        w0 = j + mw.start()
        w1 = seg_end
        while w1 > w0 and b[w1 - 1].isspace():
            w1 -= 1
        f.where_span = (w0, w1)
    # context
    ctx = None
    for s in reversed(stack):
        if s.kind in ('impl', 'trait'):
            ctx = s
            break
    mods = [s.name for s in stack if s.kind == 'mod']
    path = '::'.join([p for p in [modpath] + mods if p])
    f.ctx_kind = ctx.kind if ctx else 'free'
    f.ctx_type = ctx.type if ctx and ctx.kind == 'impl' else (ctx.name if ctx else None)
    f.ctx_trait = ctx.trait if ctx and ctx.kind == 'impl' else None
    if ctx is None:
        key = f.name
    elif ctx.kind == 'trait':
        key = '%s::%s' % (ctx.name, f.name)
    elif ctx.trait:
        key = '<%s as %s>::%s' % (ctx.type, ctx.trait, f.name)
    else:
        key = '%s::%s' % (ctx.type, f.name)
    f.key = (path + '::' if path else '') + key
    return f


# ---------------------------------------------------------------------------------------
# inside function bodies

LOOP_KW = re.compile(r'\b(while|for|loop)\b')


def find_loops(b, lo, hi):
    """Return list of (kw_pos, kw, body_open, body_close) for loops inside b[lo:hi], source order."""
    res = []
    for m in LOOP_KW.finditer(b, lo, hi):
        kw = m.group(1)
        # `for` in `impl X for Y` / HRTB cannot occur inside a body of this crate; guard anyway
        j = m.end()
        # body = first `{` at bracket depth 0
        k = j
        while k < hi:
            ch = b[k]
            if ch in '([':
                k = match_bracket(b, k) + 1
                continue
            if ch == '{':
                break
            if ch == ';':
                k = None
                break
            k += 1
        if k is None or k >= hi:
            continue
        res.append((m.start(), kw, k, match_bracket(b, k)))
    return res


def find_closures(b, lo, hi):
    """Return list of dicts {start, params:(a,b), body:(a,b), block:bool} for closures in b[lo:hi]."""
    res = []
    i = lo
    while i < hi:
        ch = b[i]
        if ch == '|':
            # closure start if previous significant char is one of ( , = { ; or keyword move/return
            p = i - 1
            while p >= lo and b[p].isspace():
                p -= 1
            prev = b[p] if p >= lo else '{'
            is_start = prev in '(,={;' or b[max(lo, p - 3):p + 1] == 'move' or b[max(lo, p - 5):p + 1] == 'return'
            if prev == '|':
                is_start = False
            if is_start:
                if b[i + 1] == '|':
                    pe = i + 1
                    params = (i + 1, i + 1)
                else:
                    pe = b.find('|', i + 1, hi)
                    params = (i + 1, pe)
                j = skip_ws(b, pe + 1)
                if b[j] == '{':
                    be = match_bracket(b, j)
                    body = (j, be + 1)
                    block = True
                else:
                    k = j
                    while k < hi:
                        c2 = b[k]
                        if c2 in '([{':
                            k = match_bracket(b, k) + 1
                            continue
                        if c2 in ',);}]':
                            break
                        k += 1
                    e = k
                    while e > j and b[e - 1].isspace():
                        e -= 1
                    body = (j, e)
                    block = False
                res.append({'start': i, 'params': params, 'body': body, 'block': block})
                i = body[0]  # nested closures inside the body are found too
                continue
        i += 1
    return res
