// vf_prelude: everything the crate image needs that is NOT rl2tp code.
// Every `external_body`, `assume_specification` and `axiom` in this file is an assumption; the
// runner scans for them and echoes the list into the evidence (DESIGN.md §2.8).
pub mod vf_prelude {
use vstd::prelude::*;
use core::borrow::Borrow;
verus! {

// ---- R3: two readings of assert! in one run -------------------------------------------------
pub uninterp spec fn strict() -> bool;
#[verifier::external_body]
pub fn vf_runtime_assert(c: bool)
    requires strict() ==> c,
    ensures c,
{ assert!(c) }

// panic!(..) / unreachable!(..) / unimplemented!(..) / todo!(..): never returns; reachable only in the guard reading
#[verifier::external_body]
pub fn vf_runtime_panic() -> !
    requires !strict(),
{ panic!() }

// ---- R11: build configurations.  `debug_assert!(c)` must be PROVED (it panics in debug builds) but may not be ASSUMED
// afterwards (it does not run in release builds); code under `#[cfg(debug_assertions)]` / `cfg!(debug_assertions)` is
// verified in both configurations through an arbitrary boolean.
pub fn vf_debug_assert(c: bool)
    requires strict() ==> c, //[C01;C06,C07,C03:debug_assert.holds]
{ }
#[verifier::external_body]
pub fn vf_cfg_debug_assertions() -> bool { cfg!(debug_assertions) }

// ---- big-endian integers over octet sequences (consumption style: the first octets of s) ------
// The bodies are closed: outside this module only the lemmas of `group_be` are available, which keeps
// the solver away from the div/mod arithmetic.
pub closed spec fn be16(s: Seq<u8>) -> int { s[0] as int * 256 + s[1] as int }
pub closed spec fn be32(s: Seq<u8>) -> int { ((s[0] as int * 256 + s[1] as int) * 256 + s[2] as int) * 256 + s[3] as int }
pub closed spec fn be64(s: Seq<u8>) -> int { be32(s) * 4294967296 + be32(s.skip(4)) }
pub open spec fn enc8(x: int) -> Seq<u8> { seq![(x % 256) as u8] }
pub closed spec fn enc16(x: int) -> Seq<u8> { seq![((x / 256) % 256) as u8, (x % 256) as u8] }
pub closed spec fn enc32(x: int) -> Seq<u8> {
    seq![((x / 16777216) % 256) as u8, ((x / 65536) % 256) as u8, ((x / 256) % 256) as u8, (x % 256) as u8]
}
pub closed spec fn enc64(x: int) -> Seq<u8> { enc32(x / 4294967296) + enc32(x % 4294967296) }

pub broadcast proof fn lemma_be16_def(s: Seq<u8>)
    requires s.len() >= 2,
    ensures #[trigger] be16(s) == s[0] as int * 256 + s[1] as int, 0 <= be16(s) < 65536,
{ }
pub broadcast proof fn lemma_be32_range(s: Seq<u8>)
    requires s.len() >= 4,
    ensures 0 <= #[trigger] be32(s) < 4294967296,
{ }
pub broadcast proof fn lemma_be64_range(s: Seq<u8>)
    requires s.len() >= 8,
    ensures 0 <= #[trigger] be64(s) < 18446744073709551616,
{ lemma_be32_range(s); lemma_be32_range(s.skip(4)); }
pub broadcast proof fn lemma_enc16_def(x: int)
    ensures (#[trigger] enc16(x)).len() == 2, enc16(x)[0] == ((x / 256) % 256) as u8, enc16(x)[1] == (x % 256) as u8,
{ }
pub broadcast proof fn lemma_enc32_len(x: int)
    ensures (#[trigger] enc32(x)).len() == 4,
{ }
pub broadcast proof fn lemma_enc64_len(x: int)
    ensures (#[trigger] enc64(x)).len() == 8,
{ }
pub broadcast proof fn lemma_be16_enc16(x: int, t: Seq<u8>)
    requires 0 <= x < 65536,
    ensures be16(#[trigger] (enc16(x) + t)) == x,
{ }
pub broadcast proof fn lemma_be16_enc16_only(x: int)
    requires 0 <= x < 65536,
    ensures be16(#[trigger] enc16(x)) == x,
{ }
pub broadcast proof fn lemma_be32_enc32(x: int, t: Seq<u8>)
    requires 0 <= x < 4294967296,
    ensures be32(#[trigger] (enc32(x) + t)) == x,
{ }
pub broadcast proof fn lemma_be32_enc32_only(x: int)
    requires 0 <= x < 4294967296,
    ensures be32(#[trigger] enc32(x)) == x,
{ }
pub broadcast proof fn lemma_be64_enc64(x: int, t: Seq<u8>)
    requires 0 <= x < 18446744073709551616,
    ensures be64(#[trigger] (enc64(x) + t)) == x,
{
    let hi = x / 4294967296;
    let lo = x % 4294967296;
    let s = enc64(x) + t;
    assert(s =~= enc32(hi) + (enc32(lo) + t));
    lemma_be32_enc32(hi, enc32(lo) + t);
    assert(s.skip(4) =~= enc32(lo) + t);
    lemma_be32_enc32(lo, t);
}
pub broadcast proof fn lemma_be64_enc64_only(x: int)
    requires 0 <= x < 18446744073709551616,
    ensures be64(#[trigger] enc64(x)) == x,
{
    lemma_be64_enc64(x, Seq::<u8>::empty());
    assert(enc64(x) + Seq::<u8>::empty() =~= enc64(x));
}
// decoding depends on the first octets only
pub broadcast proof fn lemma_be16_prefix(s: Seq<u8>, n: int)
    requires 2 <= n <= s.len(),
    ensures #[trigger] be16(s.take(n)) == be16(s),
{ }
pub broadcast proof fn lemma_be32_prefix(s: Seq<u8>, n: int)
    requires 4 <= n <= s.len(),
    ensures #[trigger] be32(s.take(n)) == be32(s),
{ }
pub broadcast proof fn lemma_be64_prefix(s: Seq<u8>, n: int)
    requires 8 <= n <= s.len(),
    ensures #[trigger] be64(s.take(n)) == be64(s),
{
    assert(s.take(n).skip(4) =~= s.skip(4).take(n - 4));
    lemma_be32_prefix(s, n);
    lemma_be32_prefix(s.skip(4), n - 4);
}
// encode after decode gives back the octets read
pub broadcast proof fn lemma_enc16_be16(s: Seq<u8>)
    requires s.len() >= 2,
    ensures #[trigger] enc16(be16(s)) == s.take(2),
{ assert(enc16(be16(s)) =~= s.take(2)); }
pub broadcast proof fn lemma_enc32_be32(s: Seq<u8>)
    requires s.len() >= 4,
    ensures #[trigger] enc32(be32(s)) == s.take(4),
{ assert(enc32(be32(s)) =~= s.take(4)); }
pub broadcast proof fn lemma_enc64_be64(s: Seq<u8>)
    requires s.len() >= 8,
    ensures #[trigger] enc64(be64(s)) == s.take(8),
{
    lemma_be32_range(s);
    lemma_be32_range(s.skip(4));
    let x = be64(s);
    assert(x / 4294967296 == be32(s) && x % 4294967296 == be32(s.skip(4))) by (nonlinear_arith)
        requires x == be32(s) * 4294967296 + be32(s.skip(4)), 0 <= be32(s), 0 <= be32(s.skip(4)) < 4294967296;
    lemma_enc32_be32(s);
    lemma_enc32_be32(s.skip(4));
    assert(s.take(4) + s.skip(4).take(4) =~= s.take(8));
}
// bit-level spellings of the 16-octet block arithmetic, so that `x & 15` and `x >> 4` are understood like `x % 16`, `x / 16`
pub broadcast proof fn lemma_and15(x: usize)
    ensures #[trigger] (x & 15) == x % 16,
{ assert((x & 15) == x % 16) by (bit_vector); }
pub broadcast proof fn lemma_shr4(x: usize)
    ensures #[trigger] (x >> 4) == x / 16,
{ assert((x >> 4) == x / 16) by (bit_vector); }
pub broadcast proof fn lemma_shr8(x: usize)
    ensures #[trigger] (x >> 8) == x / 256,
{ assert((x >> 8) == x / 256) by (bit_vector); }
pub broadcast proof fn lemma_shr16(x: usize)
    ensures #[trigger] (x >> 16) == x / 65536,
{ assert((x >> 16) == x / 65536) by (bit_vector); }
pub broadcast proof fn lemma_and255(x: usize)
    ensures #[trigger] (x & 0xff) == x % 256,
{ assert((x & 0xff) == x % 256) by (bit_vector); }
pub broadcast proof fn lemma_trunc8(x: usize)
    ensures #[trigger] (x as u8) == x % 256,
{ assert((x as u8) == x % 256) by (bit_vector); }
pub broadcast proof fn lemma_trunc16(x: usize)
    ensures #[trigger] (x as u16) == x % 65536,
{ assert((x as u16) == x % 65536) by (bit_vector); }
pub broadcast group group_be {
    lemma_and15, lemma_shr4, lemma_shr8, lemma_shr16, lemma_and255, lemma_trunc8, lemma_trunc16,
    lemma_be16_def, lemma_be32_range, lemma_be64_range, lemma_enc16_def, lemma_enc32_len, lemma_enc64_len,
    lemma_be16_enc16, lemma_be16_enc16_only, lemma_be32_enc32, lemma_be32_enc32_only,
    lemma_be64_enc64, lemma_be64_enc64_only, lemma_be16_prefix, lemma_be32_prefix, lemma_be64_prefix,
}

// ---- strings as octets ------------------------------------------------------------------------
pub uninterp spec fn is_utf8(b: Seq<u8>) -> bool;
pub uninterp spec fn chars_bytes(s: Seq<char>) -> Seq<u8>;
pub broadcast axiom fn axiom_chars_bytes_utf8(s: Seq<char>)
    ensures is_utf8(#[trigger] chars_bytes(s));
pub uninterp spec fn bytes_chars(b: Seq<u8>) -> Seq<char>;
pub broadcast axiom fn axiom_chars_bytes_injective(s: Seq<char>)
    ensures bytes_chars(#[trigger] chars_bytes(s)) == s;

#[verifier::external_type_specification] #[verifier::external_body]
pub struct ExUtf8Error(std::str::Utf8Error);
#[verifier::external_type_specification] #[verifier::external_body]
pub struct ExTryFromSliceError(std::array::TryFromSliceError);

pub assume_specification [std::str::from_utf8] (b: &[u8]) -> (r: std::result::Result<&str, std::str::Utf8Error>)
    ensures
        r is Ok <==> is_utf8(b@),
        r is Ok ==> chars_bytes(r->Ok_0@) == b@;
pub assume_specification [std::string::String::as_bytes] (s: &String) -> (r: &[u8])
    ensures r@ == chars_bytes(s@);
pub assume_specification [std::string::String::len] (s: &String) -> (r: usize)
    ensures r == chars_bytes(s@).len(), r <= isize::MAX;

// ---- std functions without a vstd specification -------------------------------------------------
pub assume_specification<T: Clone> [<[T] as std::borrow::ToOwned>::to_owned] (s: &[T]) -> (r: std::vec::Vec<T>)
    ensures r@ == s@;
pub assume_specification<T, I: core::slice::SliceIndex<[T]>> [ <[T]>::get_unchecked::<I> ] (s: &[T], i: I) -> (r: &I::Output)
    requires vstd::slice::SliceIndexSpec::in_bounds(&i, s),
    ensures vstd::slice::SliceIndexSpec::index_postcondition(&i, s, r);
pub assume_specification<T, E> [std::result::Result::<T, E>::unwrap_unchecked] (r: std::result::Result<T, E>) -> (t: T)
    requires r is Ok,
    ensures t == r->Ok_0;

// Rust guarantees that a Vec (and a slice) never holds more than isize::MAX octets
pub broadcast axiom fn axiom_vec_len_isize(v: &Vec<u8>)
    ensures #[trigger] v@.len() <= isize::MAX;

// ---- R2 wrappers: same-behaviour extension methods; contracts assumed, discharged by Kani -----
pub uninterp spec fn borrow_view<T: ?Sized>(t: &T) -> Seq<u8>;
pub broadcast axiom fn axiom_borrow_view_vec(v: &Vec<u8>)
    ensures #[trigger] borrow_view::<Vec<u8>>(v) == v@;
pub broadcast axiom fn axiom_borrow_view_slice_ref<'a>(s: &&'a [u8])
    ensures #[trigger] borrow_view::<&'a [u8]>(s) == (*s)@;
pub trait VfBorrow {
    fn vf_borrow(&self) -> (r: &[u8])
        ensures r@ == borrow_view(self);
}
impl<T: Borrow<[u8]>> VfBorrow for T {
    #[verifier::external_body]
    fn vf_borrow(&self) -> (r: &[u8]) { self.borrow() }
}

pub trait VfBe2 { fn vf_to_be_bytes(self) -> (r: [u8; 2]); }
impl VfBe2 for u16 {
    #[verifier::external_body]
    fn vf_to_be_bytes(self) -> (r: [u8; 2])
        ensures r@ == enc16(self as int),
    { self.to_be_bytes() }
}
pub trait VfBe4 { fn vf_to_be_bytes(self) -> (r: [u8; 4]); }
impl VfBe4 for u32 {
    #[verifier::external_body]
    fn vf_to_be_bytes(self) -> (r: [u8; 4])
        ensures r@ == enc32(self as int),
    { self.to_be_bytes() }
}
pub trait VfBe8 { fn vf_to_be_bytes(self) -> (r: [u8; 8]); }
impl VfBe8 for u64 {
    #[verifier::external_body]
    fn vf_to_be_bytes(self) -> (r: [u8; 8])
        ensures r@ == enc64(self as int),
    { self.to_be_bytes() }
}
#[verifier::external_body]
pub fn vf_u16_from_be_bytes(b: [u8; 2]) -> (r: u16)
    ensures r as int == be16(b@),
{ u16::from_be_bytes(b) }
#[verifier::external_body]
pub fn vf_u32_from_be_bytes(b: [u8; 4]) -> (r: u32)
    ensures r as int == be32(b@),
{ u32::from_be_bytes(b) }
#[verifier::external_body]
pub fn vf_u64_from_be_bytes(b: [u8; 8]) -> (r: u64)
    ensures r as int == be64(b@),
{ u64::from_be_bytes(b) }

pub trait VfTryInto<A> {
    type VfErr;
    fn vf_try_into(&self) -> (r: Result<A, Self::VfErr>);
}
pub open spec fn arr_seq<const N: usize>(a: [u8; N]) -> Seq<u8> { a@ }
impl<const N: usize> VfTryInto<[u8; N]> for [u8] {
    type VfErr = std::array::TryFromSliceError;
    #[verifier::external_body]
    fn vf_try_into(&self) -> (r: Result<[u8; N], std::array::TryFromSliceError>)
        ensures
            r is Ok <==> self@.len() == N,
            r is Ok ==> arr_seq::<N>(r->Ok_0) == self@,
    { self.try_into() }
}

// ---- R6: std semantics of `v.iter().any(f)` and `v.into_iter().filter_map(f).collect()` --------
pub open spec fn filter_map_spec<T, B>(s: Seq<T>, g: spec_fn(T) -> Option<B>) -> Seq<B>
    decreases s.len(),
{
    if s.len() == 0 {
        Seq::<B>::empty()
    } else {
        let rest = filter_map_spec(s.drop_last(), g);
        match g(s.last()) { Some(b) => rest.push(b), None => rest }
    }
}
#[verifier::external_body]
pub fn vf_filter_map_collect<T, B, F: FnMut(T) -> Option<B>>(v: Vec<T>, f: F) -> (r: Vec<B>)
    requires forall |x: T| f.requires((x,)),
    ensures forall |g: spec_fn(T) -> Option<B>|
        (forall |x: T, o: Option<B>| f.ensures((x,), o) ==> o == g(x)) ==> r@ == #[trigger] filter_map_spec(v@, g),
{ v.into_iter().filter_map(f).collect() }
pub open spec fn seq_any<T>(s: Seq<T>, g: spec_fn(T) -> bool) -> bool {
    exists |i: int| 0 <= i < s.len() && #[trigger] g(s[i])
}
#[verifier::external_body]
pub fn vf_iter_any<T, F: FnMut(&T) -> bool>(v: &Vec<T>, f: F) -> (r: bool)
    requires forall |x: &T| f.requires((x,)),
    ensures forall |g: spec_fn(T) -> bool|
        (forall |x: &T, o: bool| f.ensures((x,), o) ==> o == g(*x)) ==> r == #[trigger] seq_any(v@, g),
{ v.iter().any(f) }

} // verus!
} // mod vf_prelude

// ---- D6: crate `md5` stand-in: a function of its input returning 16 octets ---------------------
pub mod md5 {
use vstd::prelude::*;
verus! {
pub type Digest = [u8; 16];
pub uninterp spec fn spec_md5(data: Seq<u8>) -> Seq<u8>;
pub broadcast axiom fn axiom_md5_len(data: Seq<u8>)
    ensures #[trigger] spec_md5(data).len() == 16;
#[verifier::external_body]
pub fn compute(data: &Vec<u8>) -> (r: Digest)
    ensures r@ == spec_md5(data@),
{ unimplemented!() }
} // verus!
} // mod md5
