#!/usr/bin/env python3
"""Confirm a seeded change delivered by a sub-agent, store it under /verif/seeded/<id>/, and run the registered
checks against it (patch applied to /repo, reverted straight afterwards)."""
import json, os, re, shutil, subprocess, sys, time
os.environ['VF_EVIDENCE_DIR'] = '/tmp/vf_evidence_scratch'   # never overwrite the committed evidence from a changed tree
VERIF = os.path.dirname(os.path.dirname(os.path.abspath(__file__)))


def sh(cmd, cwd=None, env=None, timeout=3000):
    p = subprocess.run(cmd, cwd=cwd, capture_output=True, text=True, env=env, timeout=timeout, shell=isinstance(cmd, str))
    return p.returncode, p.stdout + p.stderr


def confirm(wt, deliver):
    """Returns dict with the facts confirmed in the scratch worktree."""
    facts = {}
    env = dict(os.environ, CARGO_NET_OFFLINE='true')
    patch = os.path.join(deliver, 'patch.diff')
    sh('git checkout -- . && git clean -fdq -e _deliver', cwd=wt)
    rc, out = sh(['git', 'apply', '--check', patch], cwd=wt)
    facts['patch_applies'] = rc == 0
    if rc != 0:
        facts['error'] = out[-500:]
        return facts
    sh(['git', 'apply', patch], cwd=wt)
    rc, out = sh('cargo test --offline 2>&1 | tail -40', cwd=wt, env=env)
    m = re.findall(r'test result: (\w+)\. (\d+) passed; (\d+) failed', out)
    facts['suite_with_change'] = m
    facts['suite_passes_with_change'] = bool(m) and all(x[0] == 'ok' for x in m) and int(m[0][1]) >= 98
    os.makedirs(os.path.join(wt, 'tests'), exist_ok=True)
    shutil.copy(os.path.join(deliver, 'demo.rs'), os.path.join(wt, 'tests', 'demo.rs'))
    rc1, out1 = sh('cargo test --offline --test demo 2>&1 | tail -30', cwd=wt, env=env)
    facts['demo_fails_with_change'] = ('test result: FAILED' in out1 or 'panicked' in out1 or 'error: test failed' in out1
                                       or 'signal:' in out1 or 'SIGABRT' in out1 or 'SIGSEGV' in out1)
    facts['demo_with_change_tail'] = out1[-600:]
    sh('git checkout -- src', cwd=wt)
    rc2, out2 = sh('cargo test --offline --test demo 2>&1 | tail -30', cwd=wt, env=env)
    facts['demo_passes_without_change'] = 'test result: ok' in out2 and 'FAILED' not in out2
    facts['demo_without_change_tail'] = out2[-300:]
    os.remove(os.path.join(wt, 'tests', 'demo.rs'))
    shutil.rmtree(os.path.join(wt, 'target'), ignore_errors=True)
    return facts


def run_checks_scratch(patch):
    """Same as run_checks but on a scratch copy of /repo's HEAD (VF_REPO); used when /repo must not be touched
    (e.g. while another job reads it)."""
    scratch = '/tmp/vf_seeded_repo_%d' % os.getpid()
    shutil.rmtree(scratch, ignore_errors=True)
    os.makedirs(scratch)
    try:
        sh('git -C /repo archive HEAD | tar -x -C %s' % scratch)
        rc, out = sh(['git', 'apply', '--unsafe-paths', '--directory=' + scratch, patch], cwd='/')
        if rc != 0:
            rc, out = sh(['patch', '-p1', '-s', '-i', patch], cwd=scratch)
            if rc != 0:
                raise SystemExit('patch does not apply to scratch copy: ' + out)
        t = time.time()
        rc, out = sh([os.path.join(VERIF, 'check'), '--all'], cwd=VERIF, env=dict(os.environ, VF_REPO=scratch), timeout=6000)
        res = {'output': out}
        alarms = sorted(set(re.findall(r'^VIOLATION property=(C\d\d)', out, flags=re.M)))
        nofail = sorted(set(re.findall(r'^VIOLATION property=(C\d\d).*no-failing-input-found', out, flags=re.M)))
        inc = sorted(set(re.findall(r'^INCONCLUSIVE: property=(C\d\d)', out, flags=re.M)))
        if 'INCONCLUSIVE: generator' in out:
            inc = ['ALL(generator)']
        res.update({'alarms': alarms, 'alarms_without_input': nofail, 'inconclusive': inc, 'wall_s': round(time.time() - t)})
        return res
    finally:
        shutil.rmtree(scratch, ignore_errors=True)


def run_checks(patch, props=None):
    if os.environ.get('VF_SEEDED_SCRATCH'):
        return run_checks_scratch(patch)
    rc, out = sh(['git', '-C', '/repo', 'status', '--porcelain'])
    if out.strip():
        raise SystemExit('/repo is not clean: ' + out)
    rc, out = sh(['git', '-C', '/repo', 'apply', patch])
    if rc != 0:
        raise SystemExit('patch does not apply to /repo: ' + out)
    try:
        t = time.time()
        args = [os.path.join(VERIF, 'check'), '--all'] if not props else None
        res = {}
        if args:
            rc, out = sh(args, cwd=VERIF, timeout=6000)
            res['output'] = out
        alarms = sorted(set(re.findall(r'^VIOLATION property=(C\d\d)', out, flags=re.M)))
        nofail = sorted(set(re.findall(r'^VIOLATION property=(C\d\d).*no-failing-input-found', out, flags=re.M)))
        inc = sorted(set(re.findall(r'^INCONCLUSIVE: property=(C\d\d)', out, flags=re.M)))
        if 'INCONCLUSIVE: generator' in out:
            inc = ['ALL(generator)']
        res.update({'alarms': alarms, 'alarms_without_input': nofail, 'inconclusive': inc, 'wall_s': round(time.time() - t)})
        return res
    finally:
        sh(['git', '-C', '/repo', 'checkout', '--', '.'])


def recheck(ident):
    dest = os.path.join(VERIF, 'seeded', ident)
    meta = json.load(open(os.path.join(dest, 'meta.json')))
    res = run_checks(os.path.join(dest, 'patch.diff'))
    prop = meta['breaks_property']
    print('%s: alarms=%s (without input: %s) inconclusive=%s wall=%ss  own=%s' % (ident, res['alarms'], res['alarms_without_input'], res['inconclusive'], res['wall_s'], prop in res['alarms']))
    meta['checks'] = {'alarms': res['alarms'], 'alarms_without_failing_input': res['alarms_without_input'], 'inconclusive': res['inconclusive']}
    meta['detected_by_own_property_check'] = prop in res['alarms']
    json.dump(meta, open(os.path.join(dest, 'meta.json'), 'w'), indent=1)
    open(os.path.join(dest, 'check_output.txt'), 'w').write(res.get('output', '')[-20000:])
    return 0


def main():
    if sys.argv[1] == '--recheck':
        rc = 0
        for ident in sys.argv[2:]:
            rc |= recheck(ident)
        return rc
    ident, prop, wt = sys.argv[1], sys.argv[2], sys.argv[3]
    deliver = os.path.join(wt, '_deliver')
    dest = os.path.join(VERIF, 'seeded', ident)
    facts = confirm(wt, deliver)
    print(json.dumps({k: v for k, v in facts.items() if not k.endswith('_tail')}, indent=1))
    ok = facts.get('patch_applies') and facts.get('suite_passes_with_change') and facts.get('demo_fails_with_change') and facts.get('demo_passes_without_change')
    if not ok:
        print('NOT CONFIRMED; not stored')
        return 1
    os.makedirs(dest, exist_ok=True)
    for f in ('patch.diff', 'demo.rs', 'README.md'):
        if os.path.exists(os.path.join(deliver, f)):
            shutil.copy(os.path.join(deliver, f), os.path.join(dest, f))
    res = run_checks(os.path.join(dest, 'patch.diff'))
    print('alarms=%s (without input: %s) inconclusive=%s wall=%ss' % (res['alarms'], res['alarms_without_input'], res['inconclusive'], res['wall_s']))
    readme = open(os.path.join(dest, 'README.md')).read() if os.path.exists(os.path.join(dest, 'README.md')) else ''
    meta = {
        'id': ident, 'breaks_property': prop,
        'needs_to_manifest': (re.search(r'(?is)(what is needed|needed for the violation|manifest)[^\n]*\n(.{0,600})', readme) or [None, None, ''])[2].strip()[:600],
        'confirmed': {k: v for k, v in facts.items() if not k.endswith('_tail')},
        'what_was_run': ['git apply patch.diff (scratch worktree)', 'cargo test --offline  (existing suite: passes with the change)',
                         'cargo test --offline --test demo  (fails with the change, passes without)',
                         'git -C /repo apply patch.diff; ./check --all; git -C /repo checkout -- .'],
        'checks': {'alarms': res['alarms'], 'alarms_without_failing_input': res['alarms_without_input'], 'inconclusive': res['inconclusive']},
        'detected_by_own_property_check': prop in res['alarms'],
    }
    json.dump(meta, open(os.path.join(dest, 'meta.json'), 'w'), indent=1)
    open(os.path.join(dest, 'check_output.txt'), 'w').write(res.get('output', '')[-20000:])
    return 0


if __name__ == '__main__':
    sys.exit(main())
