// Finding 7 (false alarm): the new reserved_bits_ok is the same function of the flag word.
// Exhaustive differential check over all 65536 words, placed inside the crate (src/message/flags/tests.rs
// or any #[cfg(test)] module of message::flags), because Flags is crate-private:
//
//   #[test]
//   fn reserved_bits_ok_unchanged() {
//       for w in 0..=u16::MAX {
//           let f = Flags { data: w };
//           let old = [0, 1, 2, 3, 10, 11, 13].into_iter().all(|i| !f.get_bit(i));
//           assert_eq!(f.reserved_bits_ok(), old, "word {w:#06x}");
//       }
//   }
//
// !0xd3f0 == 0x2c0f == bits {0,1,2,3,10,11,13}; every shift amount is in 0..16, so no overflow / panic
// in either version; nothing is read or written besides self.data.
