// Finding 6 demo (same input as finding 1): data message with L and O bits, offset size 65530 and the padding actually present.
use rl2tp::common::SliceReader;
use rl2tp::Message;

#[test]
fn data_message_with_large_offset_padding_does_not_overflow() {
    // flags: L (bit 9) + O (bit 14), version 2  => 0x4220
    let offset: u16 = 65530;
    let mut b = vec![0x42, 0x20];
    b.extend_from_slice(&[0x00, 0x10]); // Length (any value)
    b.extend_from_slice(&[0, 1, 0, 2]); // tunnel, session
    b.extend_from_slice(&offset.to_be_bytes());
    b.extend(std::iter::repeat(0u8).take(offset as usize)); // offset padding
    b.extend_from_slice(&[0xaa, 0xbb]); // payload
    let r = std::panic::catch_unwind(|| {
        let mut reader = SliceReader::from(&b);
        Message::try_read(&mut reader).is_ok()
    });
    // C01: Ok or Err(non-empty), never a panic / arithmetic overflow
    assert!(r.is_ok(), "decoder panicked (arithmetic overflow) on a 65546-octet data message");
}
