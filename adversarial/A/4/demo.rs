// Finding 4 demo (copy to tests/demo_f4.rs): a hidden AVP of attribute type 24 whose decrypted
// original-length field announces a 2-octet payload.  reveal() must return Ok or Err; it panics
// (SliceReader::read_u32_be_unchecked on 2 octets).
use rl2tp::avp::types::{Hidden, RandomVector};
use rl2tp::avp::AVP;

#[test]
fn reveal_is_total_for_type_24() {
    let secret = b"secret";
    let rv = RandomVector { value: [1, 2, 3, 4] };
    // plaintext block: original length 8 (= 6 + 2 payload octets), payload aa bb, padding
    let mut plain = [0u8; 16];
    plain[0] = 0;
    plain[1] = 8;
    plain[2] = 0xaa;
    plain[3] = 0xbb;
    // first-block key: MD5(attribute type ++ secret ++ random vector)
    let mut k = vec![0u8, 24];
    k.extend_from_slice(secret);
    k.extend_from_slice(&rv.value);
    let key = md5::compute(&k);
    let value: Vec<u8> = plain.iter().zip(key.iter()).map(|(p, k)| p ^ k).collect();
    let hidden = AVP::Hidden(Hidden { attribute_type: 24, value });
    let r = std::panic::catch_unwind(move || hidden.reveal(secret, &rv).is_ok());
    assert!(r.is_ok(), "reveal panicked");
}
