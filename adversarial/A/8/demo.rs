// Finding 8 demo (copy to tests/demo_f8.rs): attribute type 46 is NOT decoded by the crate
// (decode gives UnknownAvp(46)), so C20 requires every AVP-related error carrying 46 to render
// the number itself.
use rl2tp::common::{DecodeError, SliceReader};
use rl2tp::avp::AVP;

#[test]
fn unassigned_attribute_type_renders_as_its_number() {
    // what the decode dispatch does with attribute type 46: unknown
    let rec = [0x00u8, 0x08, 0x00, 0x00, 0x00, 46, 0x00, 0x01];
    let mut r = SliceReader::from(&rec[..]);
    let l = AVP::try_read_greedy(&mut r);
    assert_eq!(l, vec![Err(DecodeError::UnknownAvp(46))]);
    // hence the rendering of AVP-related errors that carry 46 must show "46"
    for e in [DecodeError::IncompleteAVP(46), DecodeError::InvalidUtf8(46), DecodeError::AVPReadError(46)] {
        let s = e.to_string();
        assert!(s.contains("46"), "rendered as {s:?}: names a kind that 46 does not decode to");
    }
}
