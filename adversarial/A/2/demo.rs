// Finding 2 demo (copy to tests/demo_f2.rs and run `cargo test --release --offline --test demo_f2`):
// a control message whose Length field (0x0020 = 32) exceeds the 12 octets present.
use rl2tp::common::SliceReader;
use rl2tp::Message;

#[test]
fn truncated_control_message_is_an_error_not_a_panic() {
    let b = [0x13u8, 0x20, 0x00, 0x20, 0, 1, 0, 2, 0, 3, 0, 4];
    let r = std::panic::catch_unwind(|| {
        let mut reader = SliceReader::from(&b[..]);
        Message::try_read(&mut reader).is_ok()
    });
    assert_eq!(r.ok(), Some(false), "expected Err(IncompleteControlMessagePayload), got a panic");
}
