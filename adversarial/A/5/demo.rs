// Finding (false alarm) demo: copy to tests/demo_pv.rs.  Exhaustive differential check of the refactored
// ProtocolVersion decoder through the public API: all 65536 two-octet payloads, with 0..=2 surplus octets,
// plus the short inputs.  Result, error and consumed octets are what the original (two read_u8) gives.
use rl2tp::avp::types::ProtocolVersion;
use rl2tp::common::{DecodeError, Reader, SliceReader};

#[test]
fn protocol_version_decoder_unchanged() {
    for w in 0..=u16::MAX {
        for extra in 0..3usize {
            let mut b = w.to_be_bytes().to_vec();
            b.extend(std::iter::repeat(0xee).take(extra));
            let mut r = SliceReader::from(&b[..]);
            let v = ProtocolVersion::try_read(&mut r).unwrap();
            assert_eq!((v.version, v.revision), (b[0], b[1]));
            assert_eq!(r.len(), extra);
        }
    }
    for n in 0..2usize {
        let b = [7u8; 1];
        let mut r = SliceReader::from(&b[..n]);
        assert_eq!(ProtocolVersion::try_read(&mut r), Err(DecodeError::IncompleteAVP(2)));
        assert_eq!(r.len(), n);
    }
}
