// Demo for the stale-Length finding (C03).   cargo test --offline --test demo
// C03: for every control message m in the encodable domain, decode_strict(encode(m)) = Ok(m[length := |encode(m)|]).
// `length` is a public field of ControlMessage; a message that was decoded earlier (or built by hand) carries any value there.
use rl2tp::avp::{types, AVP};
use rl2tp::common::{SliceReader, VecWriter};
use rl2tp::{ControlMessage, Message, ValidateReserved, ValidateUnused, ValidateVersion, ValidationOptions};

#[test]
fn c03_control_round_trip_with_nonzero_length_field() {
    let m = ControlMessage {
        length: 20, // e.g. left over from an earlier decode, before an AVP was appended
        tunnel_id: 1, session_id: 2, ns: 3, nr: 4,
        avps: vec![
            AVP::MessageType(types::MessageType::Hello),
            AVP::HostName(types::HostName { value: b"lns-1".to_vec() }),
        ],
    };
    let mut w = VecWriter::new();
    Message::<Vec<u8>>::Control(m.clone()).write(&mut w);
    let strict = ValidationOptions { reserved: ValidateReserved::Yes, version: ValidateVersion::Yes, unused: ValidateUnused::Yes };
    let got = Message::<&[u8]>::try_read_validate(&mut SliceReader::from(&w.data), strict);
    let want = ControlMessage { length: w.data.len() as u16, ..m };
    assert_eq!(got, Ok(Message::Control(want)), "Length field on the wire: {}", u16::from_be_bytes([w.data[2], w.data[3]]));
}
