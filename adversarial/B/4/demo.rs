// Demo for the RandomState finding (C19 / C12): the same call, repeated, gives different results.
//   cargo test --offline --test demo
use rl2tp::avp::{types, AVP};

#[test]
fn c19_hide_is_a_function_of_its_arguments() {
    let a = AVP::HostName(types::HostName { value: b"host".to_vec() });
    let rv = types::RandomVector { value: [1, 2, 3, 4] };
    let h1 = a.clone().hide(b"secret", &rv, &[], &[0u8; 16]);
    let h2 = a.clone().hide(b"secret", &rv, &[], &[0u8; 16]);
    assert_eq!(h1, h2, "same AVP, secret, random vector, paddings -> different hidden values");
}
