// Demo for the debug_assert-in-write_bytes_at finding (C18).  Run in the deployment profile:
//   cargo test --offline --release --test demo
// C18: "an overwrite that does not lie inside the written data is refused".
use rl2tp::common::{VecWriter, Writer};

#[test]
fn c18_overwrite_outside_written_data_is_refused() {
    let r = std::panic::catch_unwind(|| {
        let mut w = VecWriter::new();
        w.write_bytes(&[1, 2, 3]);
        w.write_bytes_at(&[9, 9], 2); // octets [2, 4) but only 3 octets were written
        w.data
    });
    assert!(r.is_err(), "write_bytes_at past the end was NOT refused; buffer afterwards: {:?}", r.unwrap());
}
