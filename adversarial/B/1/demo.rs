// Demo for finding 1 (C10: re-encoding a decoded message must reach a fixed point).
// Put this file under <crate>/tests/ and run `cargo test --offline --test demo`.
// Pristine tree: passes.  Patched tree: `encode(decode(b))` panics for an input the decoder accepts.
use rl2tp::common::{SliceReader, VecWriter};
use rl2tp::{Message, ValidateReserved, ValidateUnused, ValidateVersion, ValidationOptions};

#[test]
fn c10_reencode_of_accepted_message_with_1023_octet_avp() {
    // control message: Message Type AVP + Host Name AVP whose total length is exactly 1023 octets
    let mut body = vec![0x01, 0x08, 0, 0, 0, 0, 0, 1]; // Message Type = SCCRQ (crate numbering: M = bit 0 of octet 0)
    let host: Vec<u8> = vec![b'a'; 1017];
    body.extend([0xc1, 0xff, 0, 0, 0, 7]); // length 1023 (two high bits of octet 0 + octet 1), M bit, vendor 0, type 7
    body.extend(&host);
    let total = 12 + body.len();
    let mut wire = vec![0x13, 0x20, (total >> 8) as u8, total as u8, 0, 1, 0, 2, 0, 3, 0, 4];
    wire.extend(&body);

    let strict = ValidationOptions { reserved: ValidateReserved::Yes, version: ValidateVersion::Yes, unused: ValidateUnused::Yes };
    let m = Message::try_read_validate(&mut SliceReader::from(&wire), strict.clone()).expect("decoder accepts the input");
    // C10: encode(m) must decode to m again, and encode to the same octets
    let mut w = VecWriter::new();
    m.write(&mut w); // patched tree: panics here ("assertion failed: length < Self::MAX_LENGTH")
    let m2 = Message::try_read_validate(&mut SliceReader::from(&w.data), strict).expect("re-decodes");
    assert_eq!(m, m2);
    let mut w2 = VecWriter::new();
    m2.write(&mut w2);
    assert_eq!(w.data, w2.data);
}
