// Demo for the debug_assert finding (C07).  Run in the deployment profile:
//   cargo test --offline --release --test demo
// Pristine tree: passes (encoder panics = "fails loudly").  Patched tree: encoding RETURNS and the 10-bit
// length field is wrapped (1024 -> 0), i.e. a clipped length is emitted instead of a refusal.
use rl2tp::avp::{types, AVP};
use rl2tp::common::VecWriter;

#[test]
fn c07_oversize_avp_is_refused_not_wrapped() {
    let a = AVP::HostName(types::HostName { value: vec![b'x'; 1018] }); // 6 + 1018 = 1024 > 1023
    let r = std::panic::catch_unwind(|| {
        let mut w = VecWriter::new();
        a.write(&mut w);
        w.data
    });
    match r {
        Err(_) => {} // refused loudly: what C07 demands
        Ok(bytes) => {
            let len_field = (((bytes[0] >> 6) as usize) << 8) | bytes[1] as usize;
            panic!("encoder returned {} octets with AVP length field {} (C07: must equal the octets emitted or be refused)", bytes.len(), len_field);
        }
    }
}
