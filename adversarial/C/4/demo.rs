// Demo for finding 5 (and finding 4, same bug): a data message with L and O bits whose offset size is close to 65535.
// Put this file under tests/ of the patched crate and run `cargo test --offline --test demo`.
use rl2tp::common::{Reader, SliceReader};
use rl2tp::Message;

#[test]
fn length_field_smaller_than_header_is_accepted_and_overrun() {
    // flag word: L (0x0200) + O (0x4000) + version 2
    let mut b: Vec<u8> = vec![0x42, 0x20];
    b.extend(100u16.to_be_bytes()); // Length = 100 (counts from the first flag octet)
    b.extend([0, 1, 0, 2]); // tunnel, session
    b.extend(65530u16.to_be_bytes()); // offset size
    b.extend(std::iter::repeat(0u8).take(65530)); // the pad octets are really there
    b.extend((0..200u8).collect::<Vec<u8>>()); // what follows
    let mut r = SliceReader::from(&b);
    let res = Message::<&[u8]>::try_read(&mut r);
    // Length (100) is smaller than the header + pad (65540): the specification (and the unpatched crate) reject.
    // The patched crate accepts, returns 96 octets of "payload" and has consumed 65636 octets instead of 100.
    assert!(res.is_err(), "accepted: {:?}, {} octets left", res.map(|m| match m { Message::Data(d) => d.data.len(), _ => 0 }), r.len());
}
