// Demo for finding 2: rendering a decode error that `reveal` really returns panics (debug build) /
// prints a wrapped number (release build).  Put under tests/ of the patched crate: `cargo test --offline --test demo`.
use rl2tp::avp::types::{Hidden, RandomVector};
use rl2tp::avp::AVP;
use rl2tp::common::DecodeError;

#[test]
fn every_decode_error_renders() {
    // any payload value must render (C20: "Rendering any decode error as text succeeds for every payload value")
    for x in [0u16, 1, 5, 6, 7, 1023, 65535] {
        let s = DecodeError::InvalidOriginalAVPLength(x).to_string();
        assert!(!s.is_empty());
    }
}

#[test]
fn error_returned_by_reveal_renders() {
    // a peer with another secret: the decrypted original-length subfield is garbage; find one below 6
    let rv = RandomVector { value: [1, 2, 3, 4] };
    for seed in 0..=65535u16 {
        let mut value = vec![0u8; 16];
        value[0] = (seed >> 8) as u8;
        value[1] = seed as u8;
        let r = AVP::Hidden(Hidden { attribute_type: 7, value }).reveal(b"secret", &rv);
        if let Err(e @ DecodeError::InvalidOriginalAVPLength(n)) = r {
            if n < 6 {
                let _ = e.to_string(); // panics: attempt to subtract with overflow
                return;
            }
        }
    }
    panic!("no small original length found");
}
