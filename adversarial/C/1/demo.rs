// Demo for finding 1 (patch.diff): an AVP-related decode error no longer names the AVP kind.
// Put under tests/ of the patched crate: `cargo test --offline --test demo`.
use rl2tp::common::DecodeError;

#[test]
fn avp_errors_name_the_kind() {
    let s = DecodeError::AVPReadError(7).to_string();
    assert!(s.contains("HostName"), "rendered as {s:?}"); // pristine: "Read error when parsing AVP (HostName)"
}
