// Demo for the C13 variant of finding 1 (patch_variant_C13.diff): revealing a hidden Message Type AVP whose
// decrypted original length announces a 1-octet payload panics (unchecked 2-octet read on 1 octet).
// Put under tests/ of the patched crate: `cargo test --offline --test demo`.
use rl2tp::avp::types::{Hidden, RandomVector};
use rl2tp::avp::AVP;

#[test]
fn reveal_is_total() {
    let (secret, rv) = (b"hello".to_vec(), [0x10u8, 0x20, 0x30, 0x40]);
    // plaintext block: original length 7 (6-octet header + 1 payload octet), then arbitrary octets
    let mut p = vec![0u8, 7, 0xaa];
    p.resize(16, 0x55);
    let mut key_in = vec![0u8, 0]; // attribute type 0
    key_in.extend(&secret);
    key_in.extend(rv);
    let k = md5::compute(&key_in);
    let value: Vec<u8> = p.iter().zip(k.iter()).map(|(a, b)| a ^ b).collect();
    let r = std::panic::catch_unwind(|| AVP::Hidden(Hidden { attribute_type: 0, value }).reveal(&secret, &RandomVector { value: rv }));
    assert!(r.is_ok(), "reveal panicked");
    assert!(r.unwrap().is_err());
}
