// Demo for finding 3: revealing a hidden Message Type AVP whose decrypted value carries an unassigned
// code 0 panics in a build with overflow checks (attempt to subtract with overflow).  Put under tests/ of the patched crate: `cargo test --offline --test demo`.
use rl2tp::avp::types::{Hidden, RandomVector};
use rl2tp::avp::AVP;

#[test]
fn reveal_is_total() {
    let (secret, rv) = (b"hello".to_vec(), [0x10u8, 0x20, 0x30, 0x40]);
    // plaintext block: original length 8 (6-octet header + 2 payload octets), message-type code 0
    let mut p = vec![0u8, 8, 0x00, 0x00];
    p.resize(16, 0x55);
    let mut key_in = vec![0u8, 0]; // attribute type 0 (Message Type)
    key_in.extend(&secret);
    key_in.extend(rv);
    let k = md5::compute(&key_in);
    let value: Vec<u8> = p.iter().zip(k.iter()).map(|(a, b)| a ^ b).collect();
    let r = std::panic::catch_unwind(|| AVP::Hidden(Hidden { attribute_type: 0, value }).reveal(&secret, &RandomVector { value: rv }));
    assert!(r.is_ok(), "reveal panicked"); // C13: Ok or Err, never a panic
    assert!(r.unwrap().is_err());
}
