// C09: encoding into a writer that already holds k octets leaves those k octets unchanged.
use rl2tp::common::VecWriter;
use rl2tp::{ControlMessage, Message};

#[test]
fn prefix_is_preserved_when_the_writer_already_holds_more_than_4_gib() {
    let k: usize = (1usize << 32) + 16;
    let mut w = VecWriter::new();
    w.data = vec![0xAA; k];
    let m = Message::<Vec<u8>>::Control(ControlMessage { length: 0, tunnel_id: 1, session_id: 2, ns: 3, nr: 4, avps: vec![] });
    m.write(&mut w);
    assert_eq!(w.data.len(), k + 12);
    // the Length field of the appended message
    assert_eq!(&w.data[k + 2..k + 4], &[0, 12], "Length field of the appended message");
    // the k octets that were there before
    assert_eq!(&w.data[16..22], &[0xAA; 6], "prefix octets 16..22 were overwritten");
}
