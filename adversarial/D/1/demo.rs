// C20: "Rendering any decode error as text ... for AVP-related errors, shows the name of the AVP kind that this
// attribute-type number actually decodes to (the number itself when unassigned)."
// Put this file under tests/ of the patched crate:  cargo test --offline --test demo
use rl2tp::common::DecodeError;

#[test]
fn avp_read_error_names_the_avp_kind() {
    assert_eq!(DecodeError::AVPReadError(7).to_string(), "Read error when parsing AVP (HostName)");
    assert!(DecodeError::AVPReadError(13).to_string().contains("ChallengeResponse"));
    // unassigned number: the number itself
    assert!(DecodeError::AVPReadError(20).to_string().contains("20"));
}
